/-
Reachable-state consequences of the invariant, and helpers to exhibit concrete reachable states.
-/
import FurikoModel.Proofs.QueueInvPass

set_option linter.unusedSimpArgs false
set_option linter.unusedVariables false

namespace Furiko.Queue
open Furiko.WQ

/-! ### running a concrete history -/

def runActs (s : Sys) (acts : List Act) : Sys := acts.foldl step s

/-- every action of the history is allowed in the state where it is taken -/
def AllowedAll (s : Sys) : List Act → Prop
  | [] => True
  | a :: rest => Allowed s a ∧ AllowedAll (step s a) rest

theorem reachable_run {s : Sys} (h : Reachable s) (acts : List Act) (ha : AllowedAll s acts) :
    Reachable (runActs s acts) := by
  induction acts generalizing s with
  | nil => exact h
  | cons a rest ih => exact ih (Reachable.step s a h ha.1) ha.2

/-- all Job versions present in the system, as a list (decidable form of `Ver`) -/
def allVers (s : Sys) : List JobV :=
  s.jobs ++ s.jobCache ++ s.jobEvs.map Ev.job ++ s.storeQ.flatMap Note.jobs ++ s.ctrlQ.flatMap Note.jobs

theorem ver_iff (s : Sys) (j : JobV) : Ver s j ↔ j ∈ allVers s := by
  unfold Ver allVers
  simp only [List.mem_append, List.mem_map, List.mem_flatMap, or_assoc]

/-- decidable form of E-FreshName -/
def freshNameB (s : Sys) (n : String) : Bool :=
  (allVers s).all (fun j => decide (j.name ≠ n)) && s.indQ.keys.all (fun k => decide (keyName k ≠ n))

theorem freshName_of_b {s : Sys} {n : String} (h : freshNameB s n = true) : FreshName s n := by
  unfold freshNameB at h
  simp only [Bool.and_eq_true, List.all_eq_true, decide_eq_true_eq] at h
  exact ⟨fun j hj => h.1 j ((ver_iff s j).mp hj), h.2⟩

/-- decidable form of E-OwnerLabel -/
def ownerLabelOKB (jcs : List JCV) (j : JobV) : Bool :=
  match j.label with
  | some u =>
    decide (j.ownerUid = some u) &&
      jcs.any (fun jc => decide (jc.uid = u) && decide (j.ownerName = some jc.name))
  | none =>
    match j.ownerUid with
    | none => true
    | some u => !(jcs.any (fun jc => decide (jc.uid = u) && decide (j.ownerName = some jc.name)))

theorem ownerLabelOK_of_b {jcs : List JCV} {j : JobV} (h : ownerLabelOKB jcs j = true) :
    OwnerLabelOK jcs j := by
  intro uid
  unfold ownerLabelOKB at h
  cases hl : j.label with
  | some u =>
    simp only [hl, Bool.and_eq_true, decide_eq_true_eq, List.any_eq_true] at h
    obtain ⟨hu, jc, hjc, hjcu, hon⟩ := h
    constructor
    · intro he
      simp only [Option.some.injEq] at he; subst he
      exact ⟨hu, jc, hjc, hjcu, hon⟩
    · intro ⟨he, _⟩
      rw [hu] at he; exact he
  | none =>
    simp only [hl] at h
    constructor
    · intro he; simp at he
    · intro ⟨he, jc, hjc, hjcu, hon⟩
      rw [he] at h
      simp only [Bool.not_eq_true', List.any_eq_false, Bool.and_eq_true, decide_eq_true_eq,
        not_and] at h
      exact absurd hon (h jc hjc hjcu)

/-- decidable form of `Allowed` -/
def allowedB (s : Sys) : Act → Bool
  | .addJC jc => !(s.jcs.any (fun x => decide (x.name = jc.name)))
  | .addJob j =>
      freshNameB s j.name && j.startTime.isNone && !j.terminal && !j.admErr &&
        ownerLabelOKB s.jcs j && (j.hasPolicy || j.startAfter.isNone)
  | .markRejected n => match findJob s.jobs n with | some j => j.admErr | none => false
  | .tick d => decide (0 ≤ d)
  | .fault f => decide (f = "err" ∨ f = "conflict" ∨ f = "timeout")
  | _ => true

theorem allowed_of_b {s : Sys} {a : Act} (h : allowedB s a = true) : Allowed s a := by
  cases a with
  | addJC jc =>
    simp only [allowedB, Bool.not_eq_true', List.any_eq_false, decide_eq_true_eq] at h
    intro ⟨x, hx, hn⟩; exact h x hx hn
  | addJob j =>
    simp only [allowedB, Bool.and_eq_true, Bool.not_eq_true', Bool.or_eq_true,
      Option.isNone_iff_eq_none] at h
    obtain ⟨⟨⟨⟨⟨h1, h2⟩, h3⟩, h4⟩, h5⟩, h6⟩ := h
    refine ⟨freshName_of_b h1, h2, h3, h4, ownerLabelOK_of_b h5, ?_⟩
    intro hp; rcases h6 with h6 | h6
    · rw [hp] at h6; simp at h6
    · exact h6
  | markRejected n =>
    simp only [allowedB] at h
    split at h
    · rename_i j hj; exact ⟨j, hj, h⟩
    · simp at h
  | tick d =>
    simp only [allowedB, decide_eq_true_eq] at h; exact h
  | fault f =>
    simp only [allowedB, decide_eq_true_eq] at h; exact h
  | finishJob n => trivial
  | removeJob n => trivial
  | editStartAfter n t => trivial
  | setMaxConc n m => trivial
  | deliverJob => trivial
  | deliverJC => trivial
  | notifyStore => trivial
  | notifyCtrl => trivial
  | resync => trivial
  | workConfig => trivial
  | workIndependent => trivial
  | restart => trivial

def allowedAllB (s : Sys) : List Act → Bool
  | [] => true
  | a :: rest => allowedB s a && allowedAllB (step s a) rest

theorem allowedAll_of_b {s : Sys} {acts : List Act} (h : allowedAllB s acts = true) :
    AllowedAll s acts := by
  induction acts generalizing s with
  | nil => trivial
  | cons a rest ih =>
    simp only [allowedAllB, Bool.and_eq_true] at h
    exact ⟨allowed_of_b h.1, ih h.2⟩

/-! ### C05 on reachable states -/

/-- `counter_upper` -/
theorem Reachable.counter_upper {s : Sys} (h : Reachable s) (uid : String) :
    (trueActive s uid : Int) ≤ getCtr s.counter uid := h.inv.counter_upper uid

/-- `quiescent_exact` -/
theorem Reachable.quiescent_exact {s : Sys} (h : Reachable s) (hev : s.jobEvs = [])
    (hsq : s.storeQ = []) (uid : String) : getCtr s.counter uid = trueActive s uid :=
  h.inv.quiescent_exact hev hsq uid

/-- `never_over_limit` -/
theorem Reachable.never_over_limit {s : Sys} (h : Reachable s) :
    ∀ o ∈ (workConfigObs s).2, o.job.hasPolicy = true → (o.job.policy = 1 ∨ o.job.policy = 2) →
      (o.activeBefore : Int) + 1 ≤ o.maxConc :=
  fun o ho => ((workConfigObs_inv s h.inv).2 o ho).2

/-- the started Job of an observation carries the label of the JobConfig whose counter was used -/
theorem Reachable.obs_label {s : Sys} (h : Reachable s) :
    ∀ o ∈ (workConfigObs s).2, o.job.label = some o.uid :=
  fun o ho => ((workConfigObs_inv s h.inv).2 o ho).1

theorem syncIndependent_actCount {s : Sys} (h : Inv s) {k : String} (hk : k ∈ s.indQ.processing)
    (uid : String) : actCount (syncIndependent s (keyName k)).1.jobs uid = actCount s.jobs uid := by
  have hkk : k ∈ s.indQ.keys := by simp [mem_keys, hk]
  unfold syncIndependent
  cases hf : findJob s.jobCache (keyName k) with
  | none => rfl
  | some j =>
    simp only
    have hjc : j ∈ s.jobCache := findJob_some_mem hf
    have hlab : j.label = none := h.ind k hkk j (Or.inr (Or.inl hjc)) (findJob_some_name hf)
    split
    · rfl
    · split
      · rfl
      · rw [startJobWrite_eq]
        rcases apiWriteJob_cases s "start" j (startF s.clock j) with ⟨res, _, heq, _⟩ |
          ⟨cur, hfc, hrv, _, heq⟩
        · rw [heq]; rfl
        · rw [heq]
          have hcj : cur = j := h.cached_eq_cur hjc hfc hrv
          subst hcj
          have := actCount_setJob (j := { startF s.clock cur cur with rv := s.rv + 1 }) uid
            h.jobsNodup hfc
          simp only [actInd, startF, hlab] at this
          simpa [applyWrite, startF, hlab] using this

/-- the independent reconciler never changes the number of active Jobs of any JobConfig: in a
reachable state it only ever starts Jobs without the uid label -/
theorem Reachable.independent_trueActive {s : Sys} (h : Reachable s) (uid : String) :
    trueActive (workIndependent s).1 uid = trueActive s uid := by
  simp only [trueActive_eq]
  unfold workIndependent
  simp only
  have hadv : ∀ k ∈ (s.indQ.advance s.clock).keys, k ∈ s.indQ.keys := fun k hk => mem_keys_advance hk
  cases hg : (s.indQ.advance s.clock).get with
  | none => rfl
  | some p =>
    obtain ⟨k, q1⟩ := p
    simp only
    obtain ⟨_, hsub⟩ := mem_keys_get hg
    obtain ⟨rest, _, hq1⟩ := get_some hg
    have hproc : k ∈ q1.processing := by rw [hq1]; simp
    have h1 : Inv { s with indQ := q1, calls := [] } :=
      Inv_congr h.inv (Nat.le_refl _) rfl rfl rfl rfl (fun _ hn => hn) (fun _ => rfl)
        (h.inv.ind_of_sub (fun k' hk' => hadv k' (hsub k' hk'))) (fun f hf => Or.inl hf)
    exact syncIndependent_actCount (s := { s with indQ := q1, calls := [] }) h1 (k := k) hproc uid

/-- `restart_recounts`, first half: from ANY state the recount is exact -/
theorem restart_recounts (s : Sys) (uid : String) :
    getCtr (restart s).counter uid = trueActive s uid ∧
    trueActive (restart s) uid = trueActive s uid :=
  ⟨recover_counts s.jobs uid, rfl⟩

/-- second half: from ANY state whose API part is sane (caches, queues, counter arbitrarily
corrupted) `restart` re-establishes the invariant and the state is reachable again -/
theorem restart_reestablishes {s : Sys} (h : ApiOK s) : Inv (restart s) ∧ Reachable (restart s) :=
  ⟨Inv_restart h, Reachable.boot s h⟩


/-- a history checked by evaluation is a reachable state -/
theorem reachable_runB (acts : List Act) (h : allowedAllB {} acts = true) :
    Reachable (runActs {} acts) :=
  reachable_run reachable_init acts (allowedAll_of_b h)

end Furiko.Queue
