/-
Corollaries at the level of `syncConfig` / `workConfig` used by the property files, and the
concrete scenarios their `example`s run on.
-/
import FurikoModel.Proofs.QueueWork

set_option linter.unusedSimpArgs false
set_option linter.unusedVariables false

namespace Furiko.Queue
open Furiko.WQ

/-- the new calls `cs` of a `syncConfig` that found its JobConfig -/
theorem syncConfig_Run {s : Sys} {name : String} {jc : JCV}
    (hjc : findJC s.jcCache name = some jc) {cs : List Call}
    (h : (syncConfig s name).1.calls = s.calls ++ cs) :
    ∃ acf, Run jc s.clock (listQueued s.jobCache jc) (getCtr s.counter jc.uid) cs
        (syncConfig s name).2 acf ∧
      acf = getCtr (syncConfig s name).1.counter jc.uid ∧
      Frame s (syncConfig s name).1 ∧
      (∀ c ∈ cs, c.res = "ok" → Written (syncConfig s name).1 c) := by
  rw [syncConfig_eq, hjc] at h ⊢
  obtain ⟨acf, h1, h2, h3, h4⟩ := passLoop_Run_of_calls h
  exact ⟨acf, h1, h2 rfl, h3, h4⟩

theorem syncConfig_calls (s : Sys) (name : String) :
    ∃ cs, (syncConfig s name).1.calls = s.calls ++ cs := by
  rw [syncConfig_eq]
  cases findJC s.jcCache name with
  | none => exact ⟨[], by simp⟩
  | some jc => obtain ⟨cs, _, h, _⟩ := passLoop_Run jc (listQueued s.jobCache jc) s (getCtr s.counter jc.uid); exact ⟨cs, h⟩

/-- the call log of a worker step is the list of new calls of its `syncConfig` -/
theorem workConfig_sync {s : Sys} {k : String} {q1 : WQ}
    (hg : (s.cfgQ.advance s.clock).get = some (k, q1)) :
    (syncConfig (cfgPre s q1) (keyName k)).1.calls = (cfgPre s q1).calls ++ (workConfig s).1.calls ∧
    (workConfig s).2 = (if (syncConfig (cfgPre s q1) (keyName k)).2 then "ok" else "err") ∧
    (workConfig s).1.jobs = (syncConfig (cfgPre s q1) (keyName k)).1.jobs ∧
    (workConfig s).1.counter = (syncConfig (cfgPre s q1) (keyName k)).1.counter := by
  rw [workConfig_get hg]
  exact ⟨rfl, rfl, rfl, rfl⟩

/-- FIFO in a sorted list: "earlier" derived from the creation time -/
theorem Run.fifo_sorted {jc : JCV} {clock : Int} {rjs : List JobV} {A B : JobV} {ac : Int}
    {cs : List Call} {ok : Bool} {acf : Int}
    (hsorted : rjs.Pairwise (fun a b => a.created ≤ b.created))
    (hnd : (rjs.map (·.name)).Nodup) (hA : A ∈ rjs) (hB : B ∈ rjs) (hlt : A.created < B.created)
    (hA1 : A.hasPolicy = true) (hA2 : A.policy = 2) (hA3 : startAfterLater A clock = false)
    (hB1 : B.hasPolicy = true) (hB2 : B.policy = 2)
    (h : Run jc clock rjs ac cs ok acf)
    (hs : ⟨"start", B.name, "ok"⟩ ∈ cs) : ⟨"start", A.name, "ok"⟩ ∈ cs := by
  obtain ⟨l1, l2, l3, rfl⟩ := split_of_created_lt hsorted hA hB hlt
  exact Run.fifo hA1 hA2 hA3 hB1 hB2 hnd h hs

/-! ### `workIndependent` with the key known -/

theorem workIndependent_cases_of_get {s : Sys} {k : String} {q1 : WQ}
    (hg : (s.indQ.advance s.clock).get = some (k, q1)) :
    (((findJob s.jobCache (keyName k) = none ∨
          ∃ j, findJob s.jobCache (keyName k) = some j ∧ j.isQueued = false) ∧
        workIndependent s = (indPost (indPre s q1) k true, "ok")) ∨
     (∃ j, findJob s.jobCache (keyName k) = some j ∧ j.isQueued = true ∧
        j.hasPolicy = true ∧ startAfterLater j s.clock = true ∧
        workIndependent s = (indPost (indLater s q1 k j) k true, "ok")) ∨
     (∃ j, findJob s.jobCache (keyName k) = some j ∧ j.isQueued = true ∧ due j s.clock ∧
        ((∃ res, res ≠ "ok" ∧ writeRefused s j ∧
            workIndependent s =
              (indPost (failWrite (indPre s q1) "start" j.name res) k false, "err")) ∨
         (∃ cur, findJob s.jobs j.name = some cur ∧ cur.rv = j.rv ∧ ¬ faultBlocks s ∧
            workIndependent s =
              (indPost (applyWrite (indPre s q1) "start" j.name (startedJob s j cur)) k
                  (decide (nextFault s ≠ "applied-err")),
                if nextFault s ≠ "applied-err" then "ok" else "err"))))) := by
  rcases workIndependent_cases s with ⟨hn, _⟩ | ⟨k', q1', hg', h⟩
  · rw [hn] at hg; cases hg
  · rw [hg] at hg'
    simp only [Option.some.injEq, Prod.mk.injEq] at hg'
    obtain ⟨rfl, rfl⟩ := hg'
    exact h

theorem indPost_delayed_ok (s1 : Sys) (k : String) :
    (indPost s1 k true).indQ.delayed = s1.indQ.delayed := by
  simp [indPost, delayed_done, WQ.forget]

theorem indPost_delayed_err (s1 : Sys) (k : String) :
    HasDeadline (indPost s1 k false).indQ.delayed k (s1.clock + 320000000) := by
  simp only [indPost, Bool.false_eq_true, if_false, delayed_done]
  exact hasDeadline_addRateLimited_self _ _ _

theorem get_delayed {q : WQ} {k : String} {q1 : WQ} (h : q.get = some (k, q1)) :
    q1.delayed = q.delayed := by
  obtain ⟨rest, _, rfl⟩ := get_some h; rfl

/-! ### delivery of a create event -/

theorem deliverJob_add {s : Sys} {j : JobV} {rest : List Ev} (hev : s.jobEvs = .add j :: rest) :
    ∃ note, noteJob note = j ∧ (deliverJob s).ctrlQ = s.ctrlQ ++ [note] ∧
      (deliverJob s).jcCache = s.jcCache := by
  unfold deliverJob
  rw [hev]
  simp only
  split
  · exact ⟨_, rfl, rfl, trivial⟩
  · exact ⟨_, rfl, rfl, trivial⟩

theorem lookupOwner_independent (jcCache : List JCV) {j : JobV} (h : j.ownerName = none) :
    lookupOwner jcCache j = some none := by
  unfold lookupOwner; rw [h]

/-! ### a dirty key is queued or being processed -/

/-- the work-queue invariant "dirty ⊆ queue ∪ processing" -/
def DirtyQueued (q : WQ) : Prop := ∀ k ∈ q.dirty, k ∈ q.queue ∨ k ∈ q.processing

theorem dirtyQueued_add {q : WQ} (h : DirtyQueued q) (k : String) : DirtyQueued (q.add k) := by
  unfold WQ.add
  split
  · exact h
  · split
    · rename_i hp
      intro x hx
      simp only [List.mem_cons] at hx
      rcases hx with rfl | hx
      · right; simpa using hp
      · exact h x hx
    · intro x hx
      simp only [List.mem_cons] at hx
      rcases hx with rfl | hx
      · left; simp
      · rcases h x hx with h' | h'
        · left; simp [h']
        · right; exact h'

theorem dirtyQueued_ctrlNotify {s : Sys} (j : JobV) (h1 : DirtyQueued s.cfgQ)
    (h2 : DirtyQueued s.indQ) :
    DirtyQueued (ctrlNotify s j).cfgQ ∧ DirtyQueued (ctrlNotify s j).indQ := by
  unfold ctrlNotify
  split
  · exact ⟨h1, h2⟩
  · exact ⟨dirtyQueued_add h1 _, h2⟩
  · exact ⟨h1, dirtyQueued_add h2 _⟩

theorem dirtyQueued_notifyCtrl {s : Sys} (h1 : DirtyQueued s.cfgQ) (h2 : DirtyQueued s.indQ) :
    DirtyQueued (notifyCtrl s).cfgQ ∧ DirtyQueued (notifyCtrl s).indQ := by
  cases h : s.ctrlQ with
  | nil =>
    have : notifyCtrl s = s := by unfold notifyCtrl; rw [h]
    rw [this]; exact ⟨h1, h2⟩
  | cons n rest =>
    rw [notifyCtrl_cons h]
    exact dirtyQueued_ctrlNotify (s := { s with ctrlQ := rest }) _ h1 h2

theorem dirtyQueued_drainN (m : Nat) {s : Sys} (h1 : DirtyQueued s.cfgQ) (h2 : DirtyQueued s.indQ) :
    DirtyQueued (drainN m s).cfgQ ∧ DirtyQueued (drainN m s).indQ := by
  induction m generalizing s with
  | zero => exact ⟨h1, h2⟩
  | succ m ih =>
    obtain ⟨a, b⟩ := dirtyQueued_notifyCtrl h1 h2
    exact ih a b

/-! ### scenarios for the `example`s -/
namespace Scen

def jcN (m : Int) : JCV := { name := "c", uid := "u", maxConc := m, rv := 0 }

/-- a Job owned by JobConfig `c` -/
def mk (n : String) (hp : Bool) (pol : Nat) (sa : Option Int) : JobV :=
  { name := n, label := some "u", ownerName := some "c", ownerUid := some "u", created := 0, hasPolicy := hp, policy := pol, startAfter := sa, startTime := none, terminal := false, admErr := false, rv := 0 }

/-- an independent Job -/
def mkInd (n : String) (hp : Bool) (sa : Option Int) : JobV :=
  { name := n, label := none, ownerName := none, ownerUid := none, created := 0, hasPolicy := hp, policy := 0, startAfter := sa, startTime := none, terminal := false, admErr := false, rv := 0 }

def iter (f : Sys → Sys) : Nat → Sys → Sys
  | 0, s => s
  | n + 1, s => iter f n (f s)

/-- JobConfig `c` with limit `m` created and cached; the Jobs created, delivered to the cache and
notified to both handlers -/
def base (m : Int) (jobs : List JobV) : Sys :=
  let s := deliverJC (userAddJC {} (jcN m))
  let s := jobs.foldl userAddJob s
  let s := iter deliverJob jobs.length s
  let s := iter notifyStore jobs.length s
  iter notifyCtrl jobs.length s

/-- a (Enqueue), b (Forbid), c (Enqueue), d (Allow) under limit 1 -/
def s4 : Sys := base 1 [mk "a" true 2 none, mk "b" true 1 none, mk "c" true 2 none, mk "d" false 0 none]

/-- the same with the first controller write failing -/
def s4err : Sys := { s4 with faults := ["err"] }

/-- two Enqueue Jobs under limit 2, `a` created at 0 s and `b` at 2 s -/
def s2 : Sys :=
  let s := userAddJob (deliverJC (userAddJC {} (jcN 2))) (mk "a" true 2 none)
  let s := userAddJob { s with clock := 2000000000 } (mk "b" true 2 none)
  iter notifyCtrl 2 (iter notifyStore 2 (iter deliverJob 2 s))

/-- one Job that must wait until t = 5 s, clock at 1 s -/
def sLater : Sys := { base 1 [mk "a" true 0 (some 5)] with clock := 1000000000 }

/-- independent Job `i`, created, delivered, notified -/
def sInd : Sys := iter notifyCtrl 1 (iter deliverJob 1 (userAddJob {} (mkInd "i" false none)))

/-- independent Job that must wait until t = 5 s -/
def sIndLater : Sys := iter notifyCtrl 1 (iter deliverJob 1 (userAddJob {} (mkInd "i" true (some 5))))

end Scen

end Furiko.Queue
