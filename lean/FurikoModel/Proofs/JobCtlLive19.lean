/-
Liveness of the job controller, part 19: the controller half of a fair round, case "not complete, the
creation request of the next attempt is not due" (`case_notdue`): nothing is created, the retry timer is
armed at or after the request's earliest time — which the next clock jump reaches.  Core Lean only.
-/
import FurikoModel.Proofs.JobCtlLive18

set_option linter.unusedSimpArgs false
set_option linter.unusedVariables false

namespace Furiko.JobCtl.Live
open Furiko Furiko.JobCtl Furiko.WQ Furiko.StatusLemmas Furiko.JobCtlPlan Furiko.Conv Furiko.ParallelLemmas

section
variable {ok : Sys → Action → Prop} {j0 jo : JobObj} {F0 : Int} {s : Sys}

/-- no recorded attempt is active or successful: all are dead -/
theorem allDead_of_notfound (hshape : ∀ r ∈ jo.job.status.tasks, Dead r ∨ LiveRef r)
    (hf : jo.job.status.tasks.any refActiveOrSuccessful = false) : ∀ r ∈ jo.job.status.tasks, Dead r := by
  intro r hr
  rcases hshape r hr with hd | hl
  · exact hd
  · have : jo.job.status.tasks.any refActiveOrSuccessful = true :=
      List.any_eq_true.mpr ⟨r, hr, hl.activeOrSuccessful⟩
    rw [hf] at this; cases this

/-- the earliest time of the next attempt's creation request does not change when dead refs are refreshed -/
theorem earliest_same (h : PState ok j0 jo F0 s) (hdead : ∀ r ∈ jo.job.status.tasks, Dead r) (jo' : JobObj) (d' : PIndex)
    (hd : d' = s.d) (hjob : jo'.job = { jo.job with status := (recompute s.clock s.d jo.job (foundTasks s jo)).status }) :
    (theReq d' jo'.job).earliest = (theReq s.d jo.job).earliest := by
  subst hd
  obtain ⟨_, _, _, _, _, _, a7, _⟩ := after_found h _ (gen_found h)
  have htasks : jo'.job.status.tasks = generateTaskRefs s.clock jo.job.status.tasks (foundTasks s jo) := by
    rw [hjob]; exact (recompute_sameSpec _ _ _ _).2.1
  have hdelay : jo'.job.retryDelay = jo.job.retryDelay := by rw [hjob]; rfl
  unfold theReq
  simp only
  rw [htasks, (a7 hdead).2, hdelay]

/-- **not complete, the request is not due**: the retry timer is armed -/
theorem case_notdue (hok : ∀ s a, fairEnv s a → ok s a) (h : PState ok j0 jo F0 s) (k : String) (rest : List String)
    (hq : (s.q.advance s.clock).queue = k :: rest) (hdel0 : (s.q.advance s.clock).delayed = [])
    (hclockT : s.clock < F0 + getTTLAfterFinished jo.job s.cfg)
    (hshape : ∀ r ∈ jo.job.status.tasks, Dead r ∨ LiveRef r)
    (hc' : (getParallelTaskSummary s.d jo.job
      (generateTaskRefs s.clock jo.job.status.tasks (foundTasks s jo))).complete = false)
    (hf : jo.job.status.tasks.any refActiveOrSuccessful = false)
    (hnd : ¬ DueReq s.clock (theReq s.d jo.job).earliest) :
    ∃ jo', jo'.name = jo.name ∧ Canon ok j0 jo' F0 (deliverAll (work s).1) ∧ Busy jo' (deliverAll (work s).1) ∧
      mu jo' (deliverAll (work s).1) < muP jo s ∧ (deliverAll (work s).1).clock = s.clock ∧
      jo'.job.ttlSecondsAfterFinished = jo.job.ttlSecondsAfterFinished ∧ (deliverAll (work s).1).cfg = s.cfg ∧
      RefsStep s jo jo' (deliverAll (work s).1) := by
  have hc := h.canon
  obtain ⟨a1, a2, a3, a4, a5, a6, a7, a8⟩ := after_found h _ (gen_found h)
  obtain ⟨hdeadL, hlt, hnfin⟩ := notcomplete_facts h hshape hc'
  have hdead := allDead_of_notfound hshape hf
  have hlt' : nextRetryIndex s.d jo.job.status.tasks s.d.hash < jo.job.maxAttempts := by rw [hc.nextRetry]; exact hlt
  have hunf : (recompute s.clock s.d jo.job (foundTasks s jo)).status.condition.finished = none :=
    (recompute_condition s.clock s.d jo.job (foundTasks s jo) hc.spec a6).2 hnfin
  have hcreate : syncCreateTasks (passStart s (popQ (s.q.advance s.clock) k rest)) jo jo.job (foundTasks s jo) =
      ((updateTaskRefStatus (enqueueAfter (passStart s (popQ (s.q.advance s.clock) k rest)) (jobKey jo)
          (theReq s.d jo.job).earliest) (jobKey jo) jo.job (foundTasks s jo)).1,
        some (recompute s.clock s.d jo.job (foundTasks s jo), foundTasks s jo)) := by
    rw [syncCreateTasks_notdue (passStart s (popQ (s.q.advance s.clock) k rest)) jo (foundTasks s jo) hc.spec hc' hf
      hlt' hnd, updateTaskRefStatus_snd]
    rfl
  obtain ⟨s', _, hex, hpo, hdl, _⟩ := pass_uniform h k rest hq _ _ [] _ (foundTasks s jo) (CreateOut.refl _)
    ((enqueueAfter_timersOnly _ (jobKey jo) _).trans (updateTaskRefStatus_fst _ (jobKey jo) jo.job (foundTasks s jo)))
    hcreate (Or.inr rfl) h.consistent.nodup
    (fun t ht => ⟨(h.found_facts t ht).1, (h.found_facts t ht).2.2⟩)
    (fun pt _ _ t ht => Or.inl (h.found_facts t ht).2.1) a6 a5 hclockT (by simp)
  -- exactly one timer: the retry timer
  have hs' := hex hunf (fun t ht => Or.inl (h.found_facts t ht).2.1)
  have hs1 : (updateTaskRefStatus (enqueueAfter (passStart s (popQ (s.q.advance s.clock) k rest)) (jobKey jo)
      (theReq s.d jo.job).earliest) (jobKey jo) jo.job (foundTasks s jo)).1 =
      enqueueAfter (passStart s (popQ (s.q.advance s.clock) k rest)) (jobKey jo) (theReq s.d jo.job).earliest :=
    updateTaskRefStatus_fst_unfinished _ (jobKey jo) jo.job (foundTasks s jo) hunf
  have hdelayed : (work s).1.q.delayed = [(jobKey jo,
      if (theReq s.d jo.job).earliest < s.clock + 1000000000 then s.clock + 1000000000
      else (theReq s.d jo.job).earliest)] := by
    rw [hdl, hs', hs1]
    show setDelayed (popQ (s.q.advance s.clock) k rest).delayed _ _ = _
    show setDelayed (s.q.advance s.clock).delayed _ _ = _
    rw [hdel0]
    rfl
  have hsame := recompute_sameSpec s.clock s.d jo.job (foundTasks s jo)
  obtain ⟨jo', hjob, hname, _, hcan, hqg, hclk, hpods, hd, hcfgw⟩ := canon_after hok h _ [] hpo hsame.2.2 (Or.inl rfl)
    (by rw [hsame.2.1]; exact a2)
    (by
      intro p hp
      rw [List.append_nil] at hp
      rw [hsame.2.1, a1]
      rcases hc.unrec p hp with hx | ⟨hn, hl, _⟩
      · exact Or.inl ((a3 _).mpr hx)
      · exact Or.inr ⟨hn, hl, hdeadL⟩)
    (by rw [hsame.2.1]; exact a5)
  have htasks : jo'.job.status.tasks = generateTaskRefs s.clock jo.job.status.tasks (foundTasks s jo) := by
    rw [hjob]; exact hsame.2.1
  have hmax : jo'.job.maxAttempts = jo.job.maxAttempts := by rw [hjob]; rfl
  have hwd : (deliverAll (work s).1).q.delayed = [(jobKey jo,
      if (theReq s.d jo.job).earliest < s.clock + 1000000000 then s.clock + 1000000000
      else (theReq s.d jo.job).earliest)] := by rw [hqg.delayed, hdelayed]
  have hrs : RefsStep s jo jo' (deliverAll (work s).1) := by
    refine ⟨?_, Or.inl (by rw [hpods, List.append_nil])⟩
    intro g hg
    rw [htasks] at hg
    exact Or.inl (found_mem h _ (gen_found h) g hg)
  refine ⟨jo', hname, hcan, ⟨?_, ?_, Or.inr (by rw [hwd]; simp)⟩, ?_, hclk, by rw [hjob], hcfgw, hrs⟩
  · rw [hjob]; exact hunf
  · intro r hr
    rw [htasks] at hr
    exact Or.inl (hdeadL r hr)
  · have hfin' : AllFin jo'.job.status.tasks := by rw [htasks]; exact a4
    have hE := earliest_same h hdead jo' _ hd hjob
    have hda : dueOrArmed (deliverAll (work s).1) (theReq (deliverAll (work s).1).d jo'.job).earliest = true := by
      unfold dueOrArmed
      rw [hwd, hE]
      simp only [List.any_cons, List.any_nil, Bool.or_false, Bool.or_eq_true, decide_eq_true_eq]
      right
      split
      · rename_i hx; exact Int.le_of_lt hx
      · exact Int.le_refl _
    rw [mu_allFin jo' _ hfin', hda, htasks, a1, hmax]
    unfold muP
    have hall : jo.job.status.tasks.all (fun r => r.finishTimestamp.isSome) = true :=
      all_fin_of_allFin (fun r hr => (hdead r hr).fin)
    rw [hall]
    simp only [↓reduceIte, hnd]
    omega

end

end Furiko.JobCtl.Live
