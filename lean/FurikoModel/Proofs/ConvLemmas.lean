/-
Helpers for Props/C20Inst (more instances of C20's convergence schema), part 1:
generic facts about `C20.runLoop`, and the JobConfig-controller instance
(model: Model/JobConfigStatus.lean; lemma library: Proofs/JcStatusLemmas.lean, Props/C15.lean).
Core Lean only.
-/
import FurikoModel.Props.C20
import FurikoModel.Props.C15

set_option linter.unusedVariables false
set_option linter.unusedSimpArgs false

namespace Furiko.Conv
open Furiko Furiko.JcStatus Furiko.Props Furiko.Props.C20

/-! ## 1. generic: the retry loop, one more unit of fuel -/

section Generic
variable {S : Type}

theorem runLoop_step (sync : S → Bool → S × Bool) (n : Nat) (fs : List Bool) (s : S) :
    runLoop sync (n + 1) fs s =
      if (sync s (fs.headD false)).2 = true then ((sync s (fs.headD false)).1, true)
      else runLoop sync n fs.tail (sync s (fs.headD false)).1 := rfl

/-- a loop that has reported success stops: more fuel changes nothing -/
theorem runLoop_succ_ok (sync : S → Bool → S × Bool) (n : Nat) (fs : List Bool) (s : S)
    (h : (runLoop sync n fs s).2 = true) : runLoop sync (n + 1) fs s = runLoop sync n fs s := by
  induction n generalizing fs s with
  | zero => simp [runLoop] at h
  | succ n ih =>
    rw [runLoop_step sync (n + 1) fs s, runLoop_step sync n fs s]
    rw [runLoop_step sync n fs s] at h
    by_cases hr : (sync s (fs.headD false)).2 = true
    · rw [if_pos hr, if_pos hr]
    · rw [if_neg hr] at h ⊢
      rw [if_neg hr]
      exact ih fs.tail _ h

/-- a loop that has not yet reported success makes exactly one more pass with one more unit of fuel -/
theorem runLoop_succ_notok (sync : S → Bool → S × Bool) (n : Nat) (fs : List Bool) (s : S)
    (h : (runLoop sync n fs s).2 = false) :
    ∃ f, runLoop sync (n + 1) fs s = sync (runLoop sync n fs s).1 f := by
  induction n generalizing fs s with
  | zero =>
    refine ⟨fs.headD false, ?_⟩
    rw [runLoop_step]
    show _ = sync s (fs.headD false)
    by_cases hr : (sync s (fs.headD false)).2 = true
    · rw [if_pos hr]; exact Prod.ext rfl hr.symm
    · rw [if_neg hr]
      have hr' : (sync s (fs.headD false)).2 = false := by simpa using hr
      exact Prod.ext rfl hr'.symm
  | succ n ih =>
    rw [runLoop_step sync (n + 1) fs s, runLoop_step sync n fs s]
    rw [runLoop_step sync n fs s] at h
    by_cases hr : (sync s (fs.headD false)).2 = true
    · rw [if_pos hr] at h; cases h
    · rw [if_neg hr] at h ⊢
      rw [if_neg hr]
      exact ih fs.tail _ h

/-- an invariant of single passes holds at every point of the retry loop -/
theorem runLoop_inv (sync : S → Bool → S × Bool) (P : S → Prop)
    (hstep : ∀ s f, P s → P (sync s f).1) (fs : List Bool) (s : S) (hs : P s) (n : Nat) :
    P (runLoop sync n fs s).1 := by
  induction n generalizing fs s with
  | zero => exact hs
  | succ n ih =>
    simp only [runLoop]
    split
    · exact hstep s _ hs
    · exact ih _ _ (hstep s _ hs)

/-- whatever a single pass preserves from inside an invariant `P` (a preorder `R` from the state
before to the state after) is preserved between ANY two points of the retry loop -/
theorem runLoop_monotone (sync : S → Bool → S × Bool) (P : S → Prop) (R : S → S → Prop)
    (hrefl : ∀ s, R s s) (htrans : ∀ a b c, R a b → R b c → R a c)
    (hP : ∀ s f, P s → P (sync s f).1)
    (hstep : ∀ s f, P s → R s (sync s f).1) (fs : List Bool) (s : S) (hs : P s) (n m : Nat) (hnm : n ≤ m) :
    R (runLoop sync n fs s).1 (runLoop sync m fs s).1 := by
  induction m with
  | zero =>
    have : n = 0 := by omega
    subst this; exact hrefl _
  | succ m ih =>
    by_cases hn : n = m + 1
    · subst hn; exact hrefl _
    · have h1 := ih (by omega)
      cases hok : (runLoop sync m fs s).2 with
      | true => rw [runLoop_succ_ok sync m fs s hok]; exact h1
      | false =>
        obtain ⟨f, hf⟩ := runLoop_succ_notok sync m fs s hok
        rw [hf]
        exact htrans _ _ _ h1 (hstep _ f (runLoop_inv sync P hP fs s hs m))

end Generic

/-! ## 2. the JobConfig controller as a level-triggered reconciler -/

/-- how a faulted `UpdateStatus` fails -/
inductive JcFault where
  /-- server error / timeout: the call is answered with an error and not applied (E-ErrNotApplied) -/
  | error
  /-- optimistic-concurrency conflict: another writer bumped the resourceVersion between the
  controller's read and its write (`Model.writeStatus` itself answers `.conflict`) -/
  | conflict
deriving DecidableEq, Repr

/-- state of the instance: the authoritative JobConfig and the controller's cached copy -/
structure JcSt where
  api    : JobConfig
  cached : JobConfig
deriving DecidableEq, Repr

/-- which outcomes of `SyncOne` are `return nil` -/
def outcomeOk : Outcome → Bool
  | .cacheMiss | .noop | .updated => true
  | .conflict | .gone => false

/-- a foreign write that changes nothing the controller reads (e.g. a metadata edit) -/
def bumpRv (a : JobConfig) : JobConfig := { a with rv := a.rv + 1 }

/-- the object after an accepted `UpdateStatus` of a pass that read `a` itself -/
def written (jobs : List JcStatus.Job) (a : JobConfig) : JobConfig :=
  { a with status := computeStatus a (listJobs jobs a), rv := a.rv + 1 }

/-- explicit step: the JobConfig informer delivers the current object to the cache -/
def jcCatchUp (s : JcSt) : JcSt := { s with cached := s.api }

/-- one `SyncOne` (`Model.syncCore`, optimistic concurrency on) reading the CACHED object and the
Job cache `jobs`.  `fault = true`: the `UpdateStatus` of this pass — if one is issued — fails, in
the way `k` says.  The flag returned is "SyncOne returned nil". -/
def jcPass (k : JcFault) (jobs : List JcStatus.Job) (s : JcSt) (fault : Bool) : JcSt × Bool :=
  if fault then
    match k with
    | .error =>
      -- the call `syncCore` would issue is answered with an error: nothing applied; nil iff no call
      (s, decide ((syncCore true (some s.api) s.cached jobs (s.api.rv + 1)).2.1 = .noop))
    | .conflict =>
      let api1 := bumpRv s.api
      let r := syncCore true (some api1) s.cached jobs (api1.rv + 1)
      ({ s with api := r.1.getD api1 }, outcomeOk r.2.1)
  else
    let r := syncCore true (some s.api) s.cached jobs (s.api.rv + 1)
    ({ s with api := r.1.getD s.api }, outcomeOk r.2.1)

/-- the `sync` of the schema: one pass, then the cache catches up with the API object (the
watch event of the pass's own write, or of the foreign write, is delivered before the retry) -/
def jcSync (k : JcFault) (jobs : List JcStatus.Job) (s : JcSt) (fault : Bool) : JcSt × Bool :=
  let r := jcPass k jobs s fault
  (jcCatchUp r.1, r.2)

/-- the cache is up to date -/
def JcInv (s : JcSt) : Prop := s.cached = s.api

/-- the fixpoint: cache up to date and the API status is `computeStatus` of itself over the
current Job cache -/
def JcFix (jobs : List JcStatus.Job) (s : JcSt) : Prop :=
  s.cached = s.api ∧ s.api.status = computeStatus s.api (listJobs jobs s.api)

/-- the four shapes of a pass on an up-to-date cache -/
theorem jcSync_cases (k : JcFault) (jobs : List JcStatus.Job) (a : JobConfig) (f : Bool) :
    (computeStatus a (listJobs jobs a) = a.status ∧
      ((jcSync k jobs ⟨a, a⟩ f = (⟨a, a⟩, true) ∧ (f = false ∨ k = .error)) ∨
       (jcSync k jobs ⟨a, a⟩ f = (⟨bumpRv a, bumpRv a⟩, true) ∧ f = true ∧ k = .conflict))) ∨
    (computeStatus a (listJobs jobs a) ≠ a.status ∧
      ((jcSync k jobs ⟨a, a⟩ f = (⟨written jobs a, written jobs a⟩, true) ∧ f = false) ∨
       (jcSync k jobs ⟨a, a⟩ f = (⟨a, a⟩, false) ∧ f = true ∧ k = .error) ∨
       (jcSync k jobs ⟨a, a⟩ f = (⟨bumpRv a, bumpRv a⟩, false) ∧ f = true ∧ k = .conflict))) := by
  by_cases hst : computeStatus a (listJobs jobs a) = a.status
  · left
    refine ⟨hst, ?_⟩
    cases f with
    | false =>
      left
      refine ⟨?_, Or.inl rfl⟩
      simp [jcSync, jcPass, jcCatchUp, syncCore, hst, outcomeOk]
    | true =>
      cases k with
      | error =>
        left
        refine ⟨?_, Or.inr rfl⟩
        simp [jcSync, jcPass, jcCatchUp, syncCore, hst]
      | conflict =>
        right
        refine ⟨?_, rfl, rfl⟩
        simp [jcSync, jcPass, jcCatchUp, syncCore, hst, outcomeOk]
  · right
    refine ⟨hst, ?_⟩
    cases f with
    | false =>
      left
      refine ⟨?_, rfl⟩
      simp [jcSync, jcPass, jcCatchUp, syncCore, hst, outcomeOk, writeStatus, written]
    | true =>
      cases k with
      | error =>
        right; left
        refine ⟨?_, rfl, rfl⟩
        simp [jcSync, jcPass, jcCatchUp, syncCore, hst, writeStatus]
      | conflict =>
        right; right
        refine ⟨?_, rfl, rfl⟩
        simp [jcSync, jcPass, jcCatchUp, syncCore, hst, outcomeOk, writeStatus, bumpRv]

theorem computeStatus_bumpRv (a : JobConfig) (rjs : List JcStatus.Job) :
    computeStatus (bumpRv a) rjs = computeStatus a rjs := rfl

theorem listJobs_bumpRv (jobs : List JcStatus.Job) (a : JobConfig) : listJobs jobs (bumpRv a) = listJobs jobs a := rfl

theorem listJobs_written (jobs : List JcStatus.Job) (a : JobConfig) : listJobs jobs (written jobs a) = listJobs jobs a := rfl

/-- `C15.sync_fixpoint` in the vocabulary of this file: the written object is a fixpoint -/
theorem written_fix (jobs : List JcStatus.Job) (a : JobConfig) :
    computeStatus (written jobs a) (listJobs jobs (written jobs a)) = (written jobs a).status := by
  rw [listJobs_written]
  exact C15.sync_fixpoint a (listJobs jobs a)

/-- every state the loop visits from an up-to-date cache has an up-to-date cache -/
theorem jcSync_inv (k : JcFault) (jobs : List JcStatus.Job) (s : JcSt) (f : Bool) : JcInv (jcSync k jobs s f).1 := rfl

/-- the level the reconciler reacts to, together with what a fault-free pass would write -/
def jcLevel (jobs : List JcStatus.Job) (s : JcSt) : String × String × String × Sched × Status :=
  (s.api.ns, s.api.name, s.api.uid, s.api.sched, computeStatus s.api (listJobs jobs s.api))

/-- the observable outcome: the object without its resourceVersion -/
def jcObs (s : JcSt) : String × String × String × Sched × Status :=
  (s.api.ns, s.api.name, s.api.uid, s.api.sched, s.api.status)

theorem jcSync_level (k : JcFault) (jobs : List JcStatus.Job) (s : JcSt) (f : Bool) (hs : JcInv s) :
    jcLevel jobs (jcSync k jobs s f).1 = jcLevel jobs s := by
  obtain ⟨a, c⟩ := s
  have : c = a := hs
  subst this
  rcases jcSync_cases k jobs c f with ⟨_, ⟨h, _⟩ | ⟨h, _⟩⟩ | ⟨_, ⟨h, _⟩ | ⟨h, _⟩ | ⟨h, _⟩⟩ <;> rw [h]
  · rfl
  · show (_, _, _, _, computeStatus (written jobs c) (listJobs jobs (written jobs c))) = _
    rw [written_fix]; rfl
  · rfl

/-! ### the passes of the instance are runs of C15's transition system -/

/-- the actions of `C15.stepSys` that make up one `jcSync` from `⟨a, [a]⟩` -/
def jcActs (k : JcFault) (jobs : List JcStatus.Job) (a : JobConfig) (f : Bool) : List C15.Act :=
  if f then
    match k with
    | .error => []                                      -- nothing reaches the server
    | .conflict => [.edit a.sched, .sync 1 jobs]        -- foreign write, then the stale sync
  else [.sync 0 jobs]

theorem jcSync_sim (k : JcFault) (jobs : List JcStatus.Job) (a : JobConfig) (f : Bool) :
    (jcSync k jobs ⟨a, a⟩ f).1.api = (C15.runSys true ⟨a, [a]⟩ (jcActs k jobs a f)).api := by
  cases f with
  | false => rfl
  | true => cases k <;> rfl

theorem single_wf (a : JobConfig) : (C15.Sys.mk a [a]).WF := by
  intro v hv
  simp only [List.mem_singleton] at hv
  subst hv
  exact ⟨Nat.le_refl _, fun _ => rfl⟩

/-- the preorder "neither maximum moved backwards" on the API object of the instance state -/
def MaxLe (s t : JcSt) : Prop :=
  optLe s.api.status.lastScheduled t.api.status.lastScheduled ∧
  optLe s.api.status.lastExecuted t.api.status.lastExecuted

/-- one pass (fault or not) never moves a maximum backwards — by `C15.maxima_survive_deletion_occ`
applied to the C15 run that the pass is -/
theorem jcSync_maxLe (k : JcFault) (jobs : List JcStatus.Job) (s : JcSt) (f : Bool) (hs : JcInv s) :
    MaxLe s (jcSync k jobs s f).1 := by
  obtain ⟨a, c⟩ := s
  have : c = a := hs
  subst this
  have h := C15.maxima_survive_deletion_occ ⟨c, [c]⟩ (jcActs k jobs c f) (single_wf c)
  unfold MaxLe
  rw [jcSync_sim]
  exact h

end Furiko.Conv
