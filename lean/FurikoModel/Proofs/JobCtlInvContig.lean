/-
Retry numbers are contiguous (ALL actions, foreign pods included; index hashes `WF2`): in every Job
version the refs of an index carry the retry numbers `0 .. k-1`, `k ≤ maxAttempts`, and for every pod
CONTROLLED BY the Job (server, pod cache, undelivered upsert) all lower retry numbers of its index are
recorded in the authoritative status.  Core Lean only.
-/
import FurikoModel.Proofs.JobCtlInvNames
import FurikoModel.Proofs.JobCtlInvGone

set_option linter.unusedSimpArgs false
set_option linter.unusedVariables false

namespace Furiko.JobCtl
open Furiko Furiko.WQ Furiko.StatusLemmas Furiko.ParallelLemmas

/-- attempt `(h, i)` is recorded -/
def HasAttempt (d : PIndex) (refs : List TaskRef) (h : String) (i : Int) : Prop :=
  ∃ r ∈ refs, r.hash d = h ∧ r.retryIndex = i

/-- retry numbers are within `0 .. maxAttempts-1` and downward closed per index hash -/
def Contig (j0 : JobObj) (d : PIndex) (refs : List TaskRef) : Prop :=
  ∀ r ∈ refs, 0 ≤ r.retryIndex ∧ r.retryIndex < j0.job.maxAttempts ∧
    ∀ i, 0 ≤ i → i < r.retryIndex → HasAttempt d refs (r.hash d) i

/-- all lower retry numbers of the pod's index are recorded in `refs` -/
def PodDown (d : PIndex) (refs : List TaskRef) (p : PodObj) : Prop :=
  ∀ idx retry, p.pod.parallelIndex = some idx → p.pod.retryIndex = some retry →
    ∀ i, 0 ≤ i → i < retry → HasAttempt d refs idx.hash i

theorem hasAttempt_mono {j0 : JobObj} {d : PIndex} (hwf : WF2 j0 d) {a b : List TaskRef}
    (ha : ∀ r ∈ a, RefOK j0 d r) (hb : ∀ r ∈ b, RefOK j0 d r)
    (hsub : ∀ n ∈ a.map (·.name), n ∈ b.map (·.name)) {h : String} {i : Int} (hx : HasAttempt d a h i) :
    HasAttempt d b h i := by
  obtain ⟨r, hr, hh, hi⟩ := hx
  obtain ⟨r', hr', hn⟩ := List.mem_map.mp (hsub _ (List.mem_map_of_mem hr))
  have := RefOK.same_name hwf (hb r' hr') (ha r hr) hn
  exact ⟨r', hr', this.1.trans hh, this.2.trans hi⟩

/-- with contiguous refs every retry number below the next one is recorded -/
theorem attempts_below_next {j0 : JobObj} {d : PIndex} {refs : List TaskRef} (hc : Contig j0 d refs) (h : String)
    (i : Int) (h0 : 0 ≤ i) (hi : i < nextRetryIndex d refs h) : HasAttempt d refs h i := by
  rw [nextRetryIndex_eq_maxSucc] at hi
  unfold maxSucc at hi
  rcases foldl_maxSucc_attained ((tasksOfHash d refs h).map (·.retryIndex)) 0 with he | ⟨x, hx, he⟩
  · rw [he] at hi; omega
  · rw [he] at hi
    obtain ⟨r, hr, rfl⟩ := List.mem_map.mp hx
    have hr' := (mem_tasksOfHash d refs h r).mp hr
    by_cases hxi : i = r.retryIndex
    · exact ⟨r, hr'.1, hr'.2, hxi.symm⟩
    · have := (hc r hr'.1).2.2 i h0 (by omega)
      rw [hr'.2] at this; exact this

/-- the refs of the status `sync` computes are contiguous -/
theorem sync_contig {j0 : JobObj} (sp : Sys) (jo : JobObj) (hwf : WF2 j0 sp.d) (hp : PodsGood j0 sp)
    (hjo : VerOK j0 jo) (hg : Good j0 sp.d jo.job) (hc : Contig j0 sp.d jo.job.status.tasks)
    (hdown : ∀ c ∈ sp.podCache, c.ownerUid = some j0.uid → PodDown sp.d jo.job.status.tasks c) :
    Contig j0 sp.d (sync sp jo).2.1.status.tasks := by
  have hgood := (sync_good sp jo hwf hp hjo hg).1
  have hnok := sync_nok sp jo hwf hp hjo hg
  have hle := (sync_spec sp jo sp (CreatePhase.refl _)).2
  have mono : ∀ {h : String} {i : Int}, HasAttempt sp.d jo.job.status.tasks h i →
      HasAttempt sp.d (sync sp jo).2.1.status.tasks h i :=
    fun hx => hasAttempt_mono hwf hg.refs hgood.refs hle.names hx
  intro r hr
  have hrok := hgood.refs r hr
  obtain ⟨⟨idx, hidx, hpi, hname⟩, _⟩ := hgood.refs r hr
  have hhash : r.hash sp.d = idx.hash := by unfold TaskRef.hash TaskRef.index; rw [hpi]; rfl
  have hmem := hnok r.name (List.mem_map_of_mem hr)
  unfold allowedNames at hmem
  rcases List.mem_append.mp hmem with hmem | hmem
  · rcases List.mem_append.mp hmem with hold | hreq
    · -- a name recorded before
      obtain ⟨ex, hex, hn⟩ := List.mem_map.mp hold
      have hs := RefOK.same_name hwf (hg.refs ex hex) hrok hn
      obtain ⟨h1, h2, h3⟩ := hc ex hex
      rw [hs.2] at h1 h2 h3
      refine ⟨h1, h2, ?_⟩
      intro i h0 hi
      have := mono (h3 i h0 hi)
      rw [hs.1] at this; exact this
    · -- the name of a creation request
      replace hreq := (List.mem_filter.mp hreq).1
      unfold reqNamesOf at hreq
      cases hreqs : computeMissingIndexesForCreation sp.d jo.job (jo.job.indexes sp.d) with
      | none => rw [hreqs] at hreq; cases hreq
      | some reqs =>
        rw [hreqs] at hreq
        obtain ⟨q, hq, hqn⟩ := List.mem_map.mp hreq
        unfold computeMissingIndexesForCreation at hreqs
        split at hreqs
        · cases hreqs
        · cases hreqs
          obtain ⟨k, hk, _, hmax, hqe⟩ := (mem_missingFrom sp.d jo.job _ _ 0 q).mp hq
          have hqidx : q.index ∈ j0.job.indexes sp.d := by
            rw [← indexes_of_template hjo.template, hqe]; exact List.getElem_mem hk
          have hqr : q.retryIndex = nextRetryIndex sp.d jo.job.status.tasks q.index.hash := by rw [hqe]; rfl
          unfold reqName at hqn
          rw [hjo.name, hname] at hqn
          have hinj := taskName_inj (hwf.noDash _ hqidx) (hwf.noDash _ hidx) hqn
          have hret : r.retryIndex = nextRetryIndex sp.d jo.job.status.tasks idx.hash := by
            rw [← hinj.2, hqr, hinj.1]
          refine ⟨by rw [hret]; exact nextRetryIndex_nonneg _ _ _, ?_, ?_⟩
          · rw [hret, ← hinj.1, ← maxAttempts_of_template hjo.template]
            have : q.index = (jo.job.indexes sp.d)[k] := by rw [hqe]; rfl
            rw [this]; exact hmax
          · intro i h0 hi
            rw [hhash]
            exact mono (attempts_below_next hc idx.hash i h0 (by rw [← hret]; exact hi))
  · -- the name of a cached pod that is controlled by the Job
    obtain ⟨c, hcm, hco, hcn⟩ := ownedNames_mem hmem
    have hco' : c.ownerUid = some j0.uid := hjo.uid ▸ hco
    obtain ⟨⟨idx', retry', hi', h0', hmax', hcname, hcpi, hcri⟩, _⟩ := hp.cache c hcm hco'
    rw [hcname, hname] at hcn
    have hinj := taskName_inj (hwf.noDash _ hi') (hwf.noDash _ hidx) hcn
    refine ⟨by rw [← hinj.2]; exact h0', by rw [← hinj.2]; exact hmax', ?_⟩
    intro i h0 hi
    rw [hhash, ← hinj.1]
    exact mono (hdown c hcm hco' idx' retry' hcpi hcri i h0 (by rw [hinj.2]; exact hi))

/-! ### the invariant -/

structure Inv4 (j0 : JobObj) (s : Sys) : Prop where
  contig : ∀ v, (s.job = some v ∨ v ∈ seenVers s) → Contig j0 s.d v.job.status.tasks
  down : ∀ j, s.job = some j → ∀ p, (p ∈ s.pods ∨ p ∈ s.podCache ∨ PEv.upsert p ∈ s.podEvs) →
    p.ownerUid = some j0.uid → PodDown s.d j.job.status.tasks p
  le : ∀ v ∈ seenVers s, ∀ j, s.job = some j → ∀ n ∈ refNames v.job, n ∈ refNames j.job

/-- objects and pod side unchanged (or shrinking), the set of visible versions does not grow -/
theorem Inv4.of_same {j0 : JobObj} {s s' : Sys} (h : Inv4 j0 s) (hjob : s'.job = s.job) (hd : s'.d = s.d)
    (hpods : ∀ p, (p ∈ s'.pods ∨ p ∈ s'.podCache ∨ PEv.upsert p ∈ s'.podEvs) →
      (p ∈ s.pods ∨ p ∈ s.podCache ∨ PEv.upsert p ∈ s.podEvs))
    (hsub : ∀ v ∈ seenVers s', v ∈ seenVers s) : Inv4 j0 s' := by
  refine ⟨?_, ?_, ?_⟩
  · intro v hv
    rw [hd]
    rcases hv with hv | hv
    · exact h.contig v (Or.inl (hjob ▸ hv))
    · exact h.contig v (Or.inr (hsub v hv))
  · intro j hj p hp; rw [hjob] at hj; rw [hd]; exact h.down j hj p (hpods p hp)
  · intro v hv j hj; rw [hjob] at hj; exact h.le v (hsub v hv) j hj

theorem Inv4.frame {j0 : JobObj} {s s' : Sys} (h : Inv4 j0 s) (hf : Frame s s') : Inv4 j0 s' :=
  h.of_same hf.job hf.d (fun p hp => by rw [hf.pods, hf.podCache, hf.podEvs] at hp; exact hp)
    (by rw [seenVers_congr hf.jobCache hf.jobEvs]; exact fun _ h => h)

/-- a new authoritative version whose names extend the current ones -/
theorem Inv4.jobWrite {j0 : JobObj} {s s' : Sys} {cur nj : JobObj} (h : Inv4 j0 s) (h2 : Inv2 j0 s) (hwf : WF2 j0 s.d)
    (hw : JobWrite s s' nj) (hcur : s.job = some cur) (hgood : Good j0 s.d nj.job)
    (hcontig : Contig j0 s.d nj.job.status.tasks) (hnames : ∀ n ∈ refNames cur.job, n ∈ refNames nj.job) :
    Inv4 j0 s' := by
  have hseen : seenVers s' = seenVers s ++ [nj] := by
    unfold seenVers
    rw [hw.static.jobCache, hw.jobEvs, upserts_append, List.append_assoc]
    rfl
  have hd := hw.static.d
  refine ⟨?_, ?_, ?_⟩
  · intro v hv
    rw [hd]
    rcases hv with hv | hv
    · rw [hw.job] at hv; cases hv; exact hcontig
    · rw [hseen] at hv
      rcases List.mem_append.mp hv with hv | hv
      · exact h.contig v (Or.inr hv)
      · simp only [List.mem_singleton] at hv; subst hv; exact hcontig
  · intro j hj p hp
    rw [hw.job] at hj; cases hj
    rw [hw.pods, hw.static.podCache, hw.podEvs] at hp
    rw [hd]
    intro ho idx retry hpi hri i h0 hi
    exact hasAttempt_mono hwf (h2.job cur hcur).refs hgood.refs hnames (h.down cur hcur p hp ho idx retry hpi hri i h0 hi)
  · intro v hv j hj
    rw [hw.job] at hj; cases hj
    rw [hseen] at hv
    rcases List.mem_append.mp hv with h1 | h1
    · intro n hn; exact hnames n (h.le v h1 cur hcur n hn)
    · simp only [List.mem_singleton] at h1; subst h1; exact fun n hn => hn

/-- a pod change that only touches pods whose index / retry number are those of an old pod, or adds
a pod with `PodDown` -/
theorem Inv4.podChange {j0 : JobObj} {s s' : Sys} (h : Inv4 j0 s) (hst : Static s s') (hjob : s'.job = s.job)
    (hjevs : s'.jobEvs = s.jobEvs)
    (hpods : ∀ p, (p ∈ s'.pods ∨ p ∈ s'.podCache ∨ PEv.upsert p ∈ s'.podEvs) →
      (p ∈ s.pods ∨ p ∈ s.podCache ∨ PEv.upsert p ∈ s.podEvs) ∨
      ∀ j, s.job = some j → p.ownerUid = some j0.uid → PodDown s.d j.job.status.tasks p) : Inv4 j0 s' := by
  have hseen := seenVers_congr hst.jobCache hjevs
  refine ⟨?_, ?_, ?_⟩
  · intro v hv
    rw [hst.d]
    rcases hv with hv | hv
    · exact h.contig v (Or.inl (hjob ▸ hv))
    · exact h.contig v (Or.inr (hseen ▸ hv))
  · intro j hj p hp
    rw [hjob] at hj; rw [hst.d]
    rcases hpods p hp with h' | h'
    · exact h.down j hj p h'
    · exact h' j hj
  · intro v hv j hj; rw [hseen] at hv; rw [hjob] at hj; exact h.le v hv j hj

theorem PodDown.transfer {d : PIndex} {refs : List TaskRef} {p q : PodObj} (h : PodDown d refs p)
    (hi : q.pod.parallelIndex = p.pod.parallelIndex) (hr : q.pod.retryIndex = p.pod.retryIndex) : PodDown d refs q := by
  intro idx retry hpi hri
  exact h idx retry (hi ▸ hpi) (hr ▸ hri)

end Furiko.JobCtl
