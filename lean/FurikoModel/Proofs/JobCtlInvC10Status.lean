/-
Where a stored Job status comes from (history level, all actions).

* `sync_out_form`: the Job value `Reconciler.sync` hands to the two final writes is the cached Job
  unchanged (the pass returned an error before the status refresh), or the output of
  `syncJobStatusFromTaskRefs` — i.e. of `UpdateJobStatusFromTaskRefs` — on a Job value with the cached
  Job's spec (`JobLe`).
* `StatusSrc` / `StatusOK`: the invariant "the authoritative status is the initial one, or was computed
  by `UpdateJobStatusFromTaskRefs` from a Job value with the same template whose deletion / kill
  timestamps are set only if the authoritative ones are", preserved by every step (`statusOK_of_reach`).
* `StatusSrc.coherent`: the pure coherence / soundness theorems of `Props/C11.lean`, `Props/C10.lean`
  read off a status with such an origin.
Core Lean only.
-/
import FurikoModel.Proofs.JobCtlInvJob
import FurikoModel.Proofs.JobCtlInvRefsInv
import FurikoModel.Proofs.JobCtlPlanPass
import FurikoModel.Props.C10
import FurikoModel.Props.C11

set_option linter.unusedSimpArgs false
set_option linter.unusedVariables false

namespace Furiko.JobCtl
open Furiko Furiko.WQ Furiko.JobCtlPlan Furiko.StatusLemmas Furiko.ConditionLemmas

/-! ### the Job value a pass writes -/

/-- `updateTaskRefStatus` is `syncJobStatusFromTaskRefs` after `updateJobTaskRefs` -/
theorem updateTaskRefStatus_snd (s : Sys) (key : String) (rj : Job) (tasks : List Task) :
    (updateTaskRefStatus s key rj tasks).2 =
      (syncJobStatusFromTaskRefs s key (updateJobTaskRefs s.clock rj tasks)).2 := rfl

/-- the Job `handleFinishFinalizer` returns: its input, or a status refresh of a `JobLe`-larger Job -/
theorem handleFinalizer_out_form (s : Sys) (jo : JobObj) (rj : Job) (fz : Bool) :
    ∀ rj1 fz1, (handleFinalizer s jo rj fz).2 = some (rj1, fz1) →
      rj1 = rj ∨ ∃ rj', JobLe rj rj' ∧ rj1 = (syncJobStatusFromTaskRefs s (jobKey jo) rj').2 := by
  intro rj1 fz1
  unfold handleFinalizer
  split
  · intro h; cases h; exact Or.inl rfl
  · split
    · intro h; cases h; exact Or.inl rfl
    · (try simp only)
      split
      · have ht := finalizerTasks_ok s jo rj
        have hle : JobLe rj (updateJobTaskRefs s.clock
            ((finalizerTasks s jo rj).foldl (fun acc t => updateTaskRefDeletedStatusIfNotSet acc t.name
              { state := .terminated, result := .killed, reason := "JobDeleted" }) rj) (finalizerTasks s jo rj)) :=
          (foldl_deletedStatus_le _ _ rj).trans (updateJobTaskRefs_le _ _ _ ht)
        have h1 := updateTaskRefStatus_snd s (jobKey jo)
          ((finalizerTasks s jo rj).foldl (fun acc t => updateTaskRefDeletedStatusIfNotSet acc t.name
            { state := .terminated, result := .killed, reason := "JobDeleted" }) rj) (finalizerTasks s jo rj)
        generalize updateTaskRefStatus s (jobKey jo) _ (finalizerTasks s jo rj) = r1 at h1 ⊢
        obtain ⟨s1, rj2⟩ := r1
        (try simp only at h1 ⊢)
        generalize deleteTasks s1 (finalizerTasks s jo rj) false = r2
        obtain ⟨s2, ok⟩ := r2
        (try simp only)
        intro h
        cases ok with
        | false => simp at h
        | true =>
          simp only [↓reduceIte, Option.some.injEq, Prod.mk.injEq] at h
          obtain ⟨rfl, _⟩ := h
          exact Or.inr ⟨_, hle, h1⟩
      · have h1 := updateTaskRefStatus_snd s (jobKey jo) rj []
        have hle : JobLe rj (updateJobTaskRefs s.clock rj []) :=
          updateJobTaskRefs_le _ _ _ (by intro t ht; cases ht)
        generalize updateTaskRefStatus s (jobKey jo) rj [] = r1 at h1 ⊢
        obtain ⟨s1, rj1'⟩ := r1
        (try simp only at h1 ⊢)
        intro h
        simp only [Option.some.injEq, Prod.mk.injEq] at h
        obtain ⟨rfl, _⟩ := h
        exact Or.inr ⟨_, hle, h1⟩

/-- the first stage of `sync` keeps clock and default index, and returns a `JobLe`-larger Job -/
theorem syncTasksStage_le (s : Sys) (jo : JobObj) :
    (syncTasksStage s jo).1.clock = s.clock ∧ (syncTasksStage s jo).1.d = s.d ∧
    ∀ rj1, (syncTasksStage s jo).2 = some rj1 → JobLe jo.job rj1 := by
  obtain ⟨⟨l, e⟩, _, _⟩ := syncTasksStage_ext s jo
  refine ⟨e.clock, e.d, ?_⟩
  unfold syncTasksStage
  by_cases hc : (isStarted jo.job && !isDeleted jo.job) = true
  · rw [if_pos hc]
    simp only [Bool.and_eq_true, Bool.not_eq_true'] at hc
    exact (syncJobTasks_spec s jo s hc.1 hc.2 (CreatePhase.refl _)).2
  · rw [if_neg hc]
    intro rj1 h; cases h; exact JobLe.refl _

/-- **the Job value of a pass**: what `sync` returns for the two final writes is the cached Job as it
was (the task stage failed: nothing is written), or `syncJobStatusFromTaskRefs` of a Job value that has
the cached Job's spec and start time and keeps its task names (`JobLe`), evaluated at the clock of the
pass. -/
theorem sync_out_form (s : Sys) (jo : JobObj) :
    (sync s jo).2.1 = jo.job ∨
    ∃ s' rj, s'.clock = s.clock ∧ s'.d = s.d ∧ JobLe jo.job rj ∧
      (sync s jo).2.1 = (syncJobStatusFromTaskRefs s' (jobKey jo) rj).2 := by
  rw [sync_eq]
  obtain ⟨hclk1, hd1, hle1⟩ := syncTasksStage_le s jo
  generalize syncTasksStage s jo = st at *
  obtain ⟨s1, o⟩ := st
  cases o with
  | none => exact Or.inl rfl
  | some rj1 =>
    simp only at hclk1 hd1 hle1 ⊢
    have hle1' := hle1 rj1 rfl
    have hmid : ∃ s' rj, s'.clock = s.clock ∧ s'.d = s.d ∧ JobLe jo.job rj ∧
        (syncJobStatusFromTaskRefs s1 (jobKey jo) rj1).2 = (syncJobStatusFromTaskRefs s' (jobKey jo) rj).2 :=
      ⟨s1, rj1, hclk1, hd1, hle1', rfl⟩
    have hspec2 := syncJobStatusFromTaskRefs_spec s1 (jobKey jo) rj1
    obtain ⟨e2, _⟩ := syncJobStatus_ext s1 (jobKey jo) rj1
    generalize syncJobStatusFromTaskRefs s1 (jobKey jo) rj1 = u at *
    obtain ⟨s2, rj2⟩ := u
    simp only at hmid hspec2 e2 ⊢
    obtain ⟨lt, et, _⟩ := handleTTL_ext s2 jo rj2
    generalize handleTTL s2 jo rj2 = r at *
    obtain ⟨s3, b⟩ := r
    cases b with
    | false => exact Or.inr hmid
    | true =>
      simp only at et ⊢
      have hform := handleFinalizer_out_form s3 jo rj2 jo.finalizer
      generalize handleFinalizer s3 jo rj2 jo.finalizer = f at *
      obtain ⟨s4, o4⟩ := f
      cases o4 with
      | none => exact Or.inr hmid
      | some pr =>
        obtain ⟨rj3, fin⟩ := pr
        simp only at hform ⊢
        rcases hform rj3 fin rfl with h | ⟨rj', hle', h⟩
        · rw [h]; exact Or.inr hmid
        · refine Or.inr ⟨s3, rj', ?_, ?_, (hle1'.trans hspec2.2).trans hle', h⟩
          · rw [et.clock, e2.clock]; exact hclk1
          · rw [et.d, e2.d]; exact hd1

/-! ### the origin of a stored status -/

/-- the status of `j` was computed by `UpdateJobStatusFromTaskRefs` (clock `now`) from a Job value `rj`
with `j`'s template; `rj` was being deleted / carried a kill timestamp only if `j` is / does -/
def StatusSrc (d : PIndex) (j : Job) : Prop :=
  ∃ (now : Time) (rj nj : Job), updateJobStatusFromTaskRefs now d rj = some nj ∧ nj.status = j.status ∧
    rj.template = j.template ∧ (j.deletionTimestamp = none → rj.deletionTimestamp = none) ∧
    (j.killTimestamp = none → rj.killTimestamp = none)

/-- … or it is still the status the Job was created with -/
def StatusOK (j0 : JobObj) (d : PIndex) (j : Job) : Prop := j.status = j0.job.status ∨ StatusSrc d j

theorem StatusOK.congr {j0 : JobObj} {d : PIndex} {a b : Job} (h : StatusOK j0 d a) (hst : b.status = a.status)
    (htm : b.template = a.template) (hdel : b.deletionTimestamp = none → a.deletionTimestamp = none)
    (hkill : b.killTimestamp = none → a.killTimestamp = none) : StatusOK j0 d b := by
  rcases h with h | ⟨now, rj, nj, hu, hs, ht, hd, hk⟩
  · exact Or.inl (hst.trans h)
  · exact Or.inr ⟨now, rj, nj, hu, hs.trans hst.symm, ht.trans htm.symm, fun h' => hd (hdel h'), fun h' => hk (hkill h')⟩

theorem updateJobStatusFromTaskRefs_isSome {now : Time} {d : PIndex} {rj : Job} (h : rj.template.isSome = true) :
    ∃ nj, updateJobStatusFromTaskRefs now d rj = some nj := by
  unfold updateJobStatusFromTaskRefs updateJobStatusFromTaskRefsWith
  cases ht : rj.template with
  | none => rw [ht] at h; cases h
  | some t => exact ⟨_, rfl⟩

/-- the status write of a pass has such an origin -/
theorem statusOK_sync {j0 : JobObj} (sp : Sys) (jo : JobObj) (htm : jo.job.template.isSome = true)
    (h : StatusOK j0 sp.d jo.job) :
    StatusOK j0 sp.d { jo.job with status := (sync sp jo).2.1.status } := by
  rcases sync_out_form sp jo with heq | ⟨s', rj, hclk, hd, hle, heq⟩
  · rw [heq]; exact h
  · have htm' : rj.template.isSome = true := by rw [hle.template]; exact htm
    obtain ⟨nj, hnj⟩ := updateJobStatusFromTaskRefs_isSome (now := s'.clock) (d := s'.d) htm'
    have hout : (sync sp jo).2.1 = nj := by rw [heq, syncJobStatus_snd, hnj]; rfl
    refine Or.inr ⟨s'.clock, rj, nj, by rw [← hd]; exact hnj, by rw [hout], hle.template, ?_, ?_⟩
    · intro h'; rw [hle.del]; exact h'
    · intro h'; rw [hle.kill]; exact h'

/-- every change of the authoritative Job object keeps `StatusOK` -/
theorem statusOK_moves {j0 : JobObj} {s : Sys} {a : Action} (hb : Base j0 s) (htm : j0.job.template.isSome = true)
    {o o' : Option JobObj} (hm : JobMoves s a o o') :
    (∀ j, o = some j → StatusOK j0 s.d j.job) → ∀ j', o' = some j' → StatusOK j0 s.d j'.job := by
  induction hm with
  | refl => intro h j' hj'; exact h j' hj'
  | tail hms hmv ih =>
    intro h j' hj'
    cases hmv with
    | goneUser => cases hj'
    | goneTTL => cases hj'
    | goneSpec => cases hj'
    | delMark cur t rv _ _ _ _ =>
      cases hj'
      exact (ih h cur rfl).congr rfl rfl (fun h' => by cases h') (fun h' => h')
    | kill cur t rv _ _ =>
      cases hj'
      exact (ih h cur rfl).congr rfl rfl (fun h' => h') (fun h' => by cases h')
    | ctlSpec jo sp rv _ hc hf _ _ =>
      cases hj'
      have hle := (sync_spec sp jo sp (CreatePhase.refl _)).2
      exact (ih h jo rfl).congr rfl hle.template (fun h' => h') (fun h' => by rw [← hle.kill]; exact h')
    | ctlStatus jo sp rv _ hc hf _ =>
      cases hj'
      have hjo := (hb.seenOK jo (mem_seenVers_cache hc)).1
      have htm' : jo.job.template.isSome = true := by rw [hjo.template]; exact htm
      have := statusOK_sync (j0 := j0) sp jo htm' (hf.d ▸ ih h jo rfl)
      rw [hf.d] at this
      exact this
    | ctlStatusOn jo sp rv0 rv _ hc hf _ =>
      cases hj'
      have hle := (sync_spec sp jo sp (CreatePhase.refl _)).2
      have hjo := (hb.seenOK jo (mem_seenVers_cache hc)).1
      have htm' : jo.job.template.isSome = true := by rw [hjo.template]; exact htm
      -- the object `Update` produced carries the status of the cached Job
      have hjoOK : StatusOK j0 s.d jo.job :=
        (ih h _ rfl).congr rfl hle.template.symm (fun h' => h') (fun h' => hle.kill.trans h')
      have := statusOK_sync (j0 := j0) sp jo htm' (hf.d ▸ hjoOK)
      rw [hf.d] at this
      exact this.congr rfl hle.template (fun h' => h') (fun h' => hle.kill.symm.trans h')

/-- **`StatusOK` is an invariant** of every history (all actions allowed; Job created with a template) -/
theorem statusOK_of_reach {ok : Sys → Action → Prop} {j0 : JobObj} {s : Sys} (hr : Reach ok j0 s)
    (htm : j0.job.template.isSome = true) : ∀ j, s.job = some j → StatusOK j0 s.d j.job := by
  induction hr with
  | init c cfg d _ =>
    intro j hj
    unfold initSys userCreateJob at hj
    simp only [Option.some.injEq] at hj
    subst hj
    exact Or.inl rfl
  | step a hr' _ hal ih =>
    intro j hj
    rw [step_d]
    exact statusOK_moves (base_of_reach hr') htm (job_moves (base_of_reach hr') a hal) ih j hj

/-! ### what such a status satisfies -/

theorem strategy_of_template {a b : Job} (h : a.template = b.template) : a.strategy = b.strategy := by
  unfold Job.strategy Job.parallelism; rw [h]

theorem satisfied_congr {d : PIndex} {a b : Job} (h : a.template = b.template) (ts : List TaskRef) :
    Satisfied d a ts ↔ Satisfied d b ts := by
  unfold Satisfied; rw [strategy_of_template h, indexes_of_template h]

theorem unsatisfiable_congr {d : PIndex} {a b : Job} (h : a.template = b.template) (ts : List TaskRef) :
    Unsatisfiable d a ts ↔ Unsatisfiable d b ts := by
  unfold Unsatisfiable; rw [strategy_of_template h, indexes_of_template h, maxAttempts_of_template h]

/-- the coherence of a status that `UpdateJobStatusFromTaskRefs` computed, and the soundness of its result
with respect to the Job's own template and task list -/
structure Coherent (d : PIndex) (j : Job) : Prop where
  /-- exactly one of queueing / waiting / running / finished is set -/
  one : j.status.condition.count = 1
  /-- the coarse state names it -/
  state : StateMatches j.status.state j.status.condition
  /-- the phase is terminal iff the finished condition is set -/
  phase : phaseIsTerminal j.status.phase = j.status.condition.finished.isSome
  /-- result Success ⇒ the strategy is satisfied by the recorded refs -/
  success : ∀ f, j.status.condition.finished = some f → f.result = .success → Satisfied d j j.status.tasks
  /-- result Failed ⇒ the strategy can no longer be satisfied -/
  failed : ∀ f, j.status.condition.finished = some f → f.result = .failed →
    Unsatisfiable d j j.status.tasks ∧ ¬ Satisfied d j j.status.tasks
  /-- the result is one of Success / Failed / AdmissionError / Killed -/
  known : ∀ f, j.status.condition.finished = some f → f.result ≠ .finalStateUnknown ∧ f.result ≠ .other
  /-- Killed ⇒ the Job carries a kill timestamp or is being deleted -/
  killed : ∀ f, j.status.condition.finished = some f → f.result = .killed →
    j.killTimestamp.isSome = true ∨ j.deletionTimestamp.isSome = true
  /-- Finished, not by admission error, Job not being deleted ⇒ started, and every ref of every index
  carries a finish timestamp -/
  terminated : ∀ f, j.status.condition.finished = some f → f.result ≠ .admissionError →
    j.deletionTimestamp = none →
    j.status.startTime.isSome = true ∧ ∀ i ∈ j.indexes d, IndexAllFinished d j.status.tasks i

/-- the finished condition of the written status, when the deletion override did not fire, is the one
`GetCondition` computed -/
theorem finished_of_update {now : Time} {d : PIndex} {rj nj : Job} (h : updateJobStatusFromTaskRefs now d rj = some nj)
    (f : CondFinished) (hf : nj.status.condition.finished = some f) :
    (getCondition now d rj).finished = some f ∨
    (rj.deletionTimestamp.isSome = true ∧ f.result = .killed) := by
  obtain ⟨t, _, hc, _⟩ := update_some false now d rj nj h
  rw [hc, sbp_condition] at hf
  by_cases ho : deletionOverrides rj (getCondition now d rj) = true
  · rw [if_pos ho] at hf
    right
    unfold deletionOverrides at ho
    simp only [Bool.and_eq_true] at ho
    refine ⟨ho.1, ?_⟩
    unfold deletionOverride at hf
    simp only [Option.some.injEq] at hf
    rw [← hf]
  · rw [if_neg ho] at hf
    exact Or.inl hf

theorem StatusSrc.coherent {d : PIndex} {j : Job} (h : StatusSrc d j) : Coherent d j := by
  obtain ⟨now, rj, nj, hu, hs, htm, hdel, hkill⟩ := h
  have htasks : rj.status.tasks = j.status.tasks := by
    rw [← hs]; exact (update_some false now d rj nj hu).choose_spec.2.2.2.2.1.symm
  have hstart : rj.status.startTime = j.status.startTime := by
    rw [← hs]; exact (updateJobStatusFromTaskRefs_le hu).startTime.symm
  refine ⟨?_, ?_, ?_, ?_, ?_, ?_, ?_, ?_⟩
  · rw [← hs]; exact (Furiko.Props.C11.exactly_one_condition now d rj).2 false nj hu
  · rw [← hs]; exact Furiko.Props.C11.state_matches_condition now d rj nj hu
  · rw [← hs]; exact (Furiko.Props.C11.phase_terminal_iff_finished now d rj).2 false nj hu
  · intro f hf hr
    rw [← hs] at hf
    rcases finished_of_update hu f hf with hg | ⟨_, hk⟩
    · have := (Furiko.Props.C10.succeeded_sound now d rj f hg hr).2
      rw [htasks] at this
      exact (satisfied_congr htm _).mp this
    · rw [hr] at hk; cases hk
  · intro f hf hr
    rw [← hs] at hf
    rcases finished_of_update hu f hf with hg | ⟨_, hk⟩
    · have := Furiko.Props.C10.failed_sound now d rj f hg hr
      rw [htasks] at this
      exact ⟨(unsatisfiable_congr htm _).mp this.1, fun h' => this.2 ((satisfied_congr htm _).mpr h')⟩
    · rw [hr] at hk; cases hk
  · intro f hf
    rw [← hs] at hf
    rcases finished_of_update hu f hf with hg | ⟨_, hk⟩
    · exact Furiko.Props.C10.finished_result_known now d rj f hg
    · rw [hk]; exact ⟨by simp, by simp⟩
  · intro f hf hr
    rw [← hs] at hf
    rcases finished_of_update hu f hf with hg | ⟨hd, _⟩
    · left
      cases hk : j.killTimestamp with
      | some k => rfl
      | none =>
        exfalso
        have hrk := hkill hk
        rcases getCondition_finished now d rj f hg with ⟨_, h2⟩ | ⟨_, _, _, ⟨h1, _⟩ | ⟨_, _, h2⟩⟩
        · rw [hr] at h2; cases h2
        · rw [hrk] at h1; simp [isTimeSetAndEarlierOrEqual] at h1
        · rw [hr] at h2
          unfold finishedResult at h2
          rw [hrk] at h2
          simp only [Option.isSome_none, Bool.false_eq_true, if_false] at h2
          split at h2 <;> cases h2
    · right
      cases hj : j.deletionTimestamp with
      | some k => rfl
      | none => rw [hdel hj] at hd; cases hd
  · intro f hf hne hnd
    rw [← hs] at hf
    have hrd := hdel hnd
    rcases finished_of_update hu f hf with hg | ⟨hd, _⟩
    · rcases getCondition_finished now d rj f hg with ⟨_, h2⟩ | ⟨_, hst, ht, _⟩
      · exact absurd h2 hne
      · refine ⟨by rw [← hstart]; exact hst, ?_⟩
        have := (terminated_ge_iff d rj rj.status.tasks).mp ht
        rw [htasks, indexes_of_template htm] at this
        exact this
    · rw [hrd] at hd; cases hd

end Furiko.JobCtl
