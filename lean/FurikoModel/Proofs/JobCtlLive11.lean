/-
Liveness of the job controller, part 11: the invariant `Canon` of the fair rounds of a simple Job (one
index), what it gives together with the `Reach` invariants (`Base`, `Inv2`: names, retry numbers, index
of every ref and pod), the variant `mu`, and the environment half of a round (`env_stage`): after
`deliverAll ; sweep ; deliverAll ; jump` every pod is finished, both caches are fresh, every armed timer
is due, and the invariant still holds.  Core Lean only.
-/
import FurikoModel.Proofs.JobCtlLive10
import FurikoModel.Proofs.JobCtlInvRefsInv

set_option linter.unusedSimpArgs false
set_option linter.unusedVariables false

namespace Furiko.JobCtl.Live
open Furiko Furiko.JobCtl Furiko.WQ Furiko.StatusLemmas Furiko.JobCtlPlan Furiko.Conv Furiko.ParallelLemmas

/-! ### a lower bound on finish times (for the TTL) -/

/-- whatever phase the pod ends in, the finish time it reports (`GetFinishTimestamp`, fallbacks included) is
at least `F0` -/
def PodFinLB (F0 : Int) (p : PodObj) : Prop :=
  ∀ ph f, ({ p with pod := { p.pod with phase := ph } } : PodObj).pod.finishTimestamp = some (some f) → F0 ≤ f

theorem podFinLB_raw {F0 : Int} {p : PodObj} (h : PodFinLB F0 p) {f : Time}
    (hf : p.pod.finishTimestamp = some (some f)) : F0 ≤ f := h p.pod.phase f hf

/-- … and so is the finish time a pass whose clock is at least `F0` records for it (a pod that does not
tell when it finished is recorded with the clock of the pass) -/
theorem podFinLB_self {F0 : Int} {p : PodObj} (h : PodFinLB F0 p) {now : Time} (hn : F0 ≤ now) {t : Task} {f : Time}
    (ht : podTask now p = some t)
    (hf : t.ref.finishTimestamp = some f) : F0 ≤ f :=
  podTask_finish_lb ht hn (fun f hf => podFinLB_raw h hf) f hf

theorem podFinLB_sweep {F0 : Int} (orc : String → Outcome) {p : PodObj} (h : PodFinLB F0 p) : PodFinLB F0 (sweepPod orc p) := by
  unfold sweepPod
  split
  · exact h
  · intro ph f hf
    exact h ph f hf

theorem podFinLB_newPod (F0 : Int) (jo : JobObj) (idx : PIndex) (retry : Int) (c : Time) (h : F0 ≤ c) :
    PodFinLB F0 (newPod jo idx retry c) := by
  intro ph f hf
  cases ph <;>
    simp [Pod.finishTimestamp, Pod.isFinished, newPod, containerTerminateTime,
      reasonDeadlineExceeded] at hf
  all_goals (subst hf; exact h)

theorem nowT_le_clock (s : Sys) : nowT s ≤ s.clock := by
  unfold nowT nowSec secs nsPerSec
  exact Int.ediv_mul_le s.clock (show (1000000000 : Int) ≠ 0 by decide)

/-! ### the invariant -/

/-- the invariant of the fair rounds of a simple Job with cached = authoritative version `jo` -/
structure Canon (ok : Sys → Action → Prop) (j0 jo : JobObj) (F0 : Int) (s : Sys) : Prop where
  reach : Reach ok j0 s
  nodash : '-' ∉ s.d.hash.toList
  fresh : Fresh jo s
  spec : SimpleSpec jo.job
  npos : 1 ≤ jo.job.maxAttempts
  pods : PodsOK jo s
  wf : Retry.WF s.q
  retries : (jo.job.status.tasks.map (·.retryIndex)).Perm ((List.range jo.job.status.tasks.length).map (fun i : Nat => (i : Int)))
  unrec : ∀ p ∈ s.pods, p.pod.name ∈ refNames jo.job ∨
    (p.pod.name = taskName jo.name s.d.hash jo.job.status.tasks.length ∧
     (jo.job.status.tasks.length : Int) < jo.job.maxAttempts ∧ ∀ r ∈ jo.job.status.tasks, Dead r)
  lbClock : F0 ≤ nowT s
  lbRefs : ∀ r ∈ jo.job.status.tasks, ∀ f, r.finishTimestamp = some f → F0 ≤ f
  lbPods : ∀ p ∈ s.pods, PodFinLB F0 p

/-- the Job is not finished: every recorded attempt is dead or live, and the key will be worked on -/
structure Busy (jo : JobObj) (s : Sys) : Prop where
  unfinished : jo.job.status.condition.finished = none
  shape : ∀ r ∈ jo.job.status.tasks, Dead r ∨ LiveRef r
  armed : s.q.queue ≠ [] ∨ s.q.delayed ≠ []

section derived
variable {ok : Sys → Action → Prop} {j0 jo : JobObj} {F0 : Int} {s : Sys}

theorem Canon.lbNow (h : Canon ok j0 jo F0 s) : F0 ≤ s.clock := Int.le_trans h.lbClock (nowT_le_clock s)

theorem Canon.ver (h : Canon ok j0 jo F0 s) : VerOK j0 jo := ((base_of_reach h.reach).jobOK jo h.fresh.job).1

theorem Canon.indexes0 (h : Canon ok j0 jo F0 s) : j0.job.indexes s.d = [s.d] := by
  rw [indexes_of_template h.ver.template.symm s.d]
  exact h.spec.indexes s.d

theorem Canon.wf2 (h : Canon ok j0 jo F0 s) : WF2 j0 s.d := by
  refine ⟨?_, ?_⟩
  · unfold NoCollision; rw [h.indexes0]; simp
  · intro i hi
    rw [h.indexes0] at hi
    simp only [List.mem_singleton] at hi
    subst hi; exact h.nodash

theorem Canon.good (h : Canon ok j0 jo F0 s) : Good j0 s.d jo.job := (inv2_of_reach h.reach h.wf2).job jo h.fresh.job

theorem Canon.refOK (h : Canon ok j0 jo F0 s) {r : TaskRef} (hr : r ∈ jo.job.status.tasks) :
    r.parallelIndex = some s.d ∧ r.name = taskName jo.name s.d.hash r.retryIndex ∧ r.creationTimestamp.isSome = true := by
  obtain ⟨⟨idx, hi, hp, hn⟩, hc⟩ := h.good.refs r hr
  rw [h.indexes0] at hi
  simp only [List.mem_singleton] at hi
  subst hi
  exact ⟨hp, by rw [hn, h.ver.name], hc⟩

theorem Canon.allHash (h : Canon ok j0 jo F0 s) : AllHash s.d jo.job.status.tasks := by
  intro r hr
  unfold TaskRef.hash TaskRef.index
  rw [(h.refOK hr).1]; rfl

theorem Canon.nodupNames (h : Canon ok j0 jo F0 s) : (jo.job.status.tasks.map (·.name)).Nodup := h.good.nodup

/-- the next retry number is the number of recorded attempts -/
theorem Canon.nextRetry (h : Canon ok j0 jo F0 s) :
    nextRetryIndex s.d jo.job.status.tasks s.d.hash = jo.job.status.tasks.length := by
  rw [nextRetryIndex_eq_maxSucc, tasksOfHash_all h.allHash]
  have hp := h.retries
  have hnd : (jo.job.status.tasks.map (·.retryIndex)).Nodup := by
    rw [hp.nodup_iff]
    unfold List.Nodup
    rw [List.pairwise_map]
    exact (List.nodup_range).imp (fun h e => h (by omega))
  have hlen : (jo.job.status.tasks.map (·.retryIndex)).length = jo.job.status.tasks.length := List.length_map _
  have := maxSucc_eq_length (jo.job.status.tasks.map (·.retryIndex)) hnd (by
    intro x hx
    have hx' := hp.mem_iff.mp hx
    obtain ⟨i, hi, rfl⟩ := List.mem_map.mp hx'
    have := List.mem_range.mp hi
    rw [hlen]
    exact ⟨Int.natCast_nonneg i, by omega⟩)
  rw [this, hlen]

/-- a pod controlled by the Job is named after the default index and its retry number -/
theorem Canon.podName (h : Canon ok j0 jo F0 s) {p : PodObj} (hp : p ∈ s.pods) :
    ∃ retry, p.pod.name = taskName jo.name s.d.hash retry ∧ p.pod.parallelIndex = some s.d ∧
      p.pod.retryIndex = some retry := by
  have hown : p.ownerUid = some j0.uid := by rw [← h.ver.uid]; exact (h.pods.owned p hp).1
  obtain ⟨idx, retry, hi, _, _, hn, hpi, hri⟩ := (base_of_reach h.reach).podsOK p hp hown
  rw [h.indexes0] at hi
  simp only [List.mem_singleton] at hi
  subst hi
  exact ⟨retry, by rw [hn, h.ver.name], hpi, hri⟩

/-- the task name of a retry number that is not recorded is not a recorded name -/
theorem Canon.freshName (h : Canon ok j0 jo F0 s) :
    taskName jo.name s.d.hash jo.job.status.tasks.length ∉ refNames jo.job := by
  intro hm
  obtain ⟨r, hr, hn⟩ := List.mem_map.mp hm
  rw [(h.refOK hr).2.1] at hn
  have := (taskName_inj h.nodash h.nodash hn).2
  have hmem : r.retryIndex ∈ jo.job.status.tasks.map (·.retryIndex) := List.mem_map_of_mem hr
  obtain ⟨i, hi, hie⟩ := List.mem_map.mp (h.retries.mem_iff.mp hmem)
  have := List.mem_range.mp hi
  have : (i : Int) = r.retryIndex := hie
  omega

end derived

/-! ### the variant -/

/-- the creation request of the next attempt is due, or a timer at or after its earliest time is armed -/
def dueOrArmed (s : Sys) (e : Time) : Bool :=
  decide (DueReq s.clock e) || s.q.delayed.any (fun x => decide (e ≤ x.2))

/-- rounds still needed, at most: three per attempt that may still be made (arm the retry timer, create,
record the outcome) -/
def mu (jo : JobObj) (s : Sys) : Nat :=
  if jo.job.status.tasks.all (fun r => r.finishTimestamp.isSome) then
    3 * (jo.job.maxAttempts - jo.job.status.tasks.length).toNat + 2 -
      (if dueOrArmed s (theReq s.d jo.job).earliest then 1 else 0)
  else 3 * (jo.job.maxAttempts - jo.job.status.tasks.length).toNat + 3

theorem mu_le (jo : JobObj) (s : Sys) : mu jo s ≤ 3 * jo.job.maxAttempts.toNat + 3 := by
  unfold mu
  have : (jo.job.maxAttempts - (jo.job.status.tasks.length : Int)).toNat ≤ jo.job.maxAttempts.toNat := by omega
  split <;> omega

end Furiko.JobCtl.Live
