/-
Liveness of the job controller, part 21: the controller half of a fair round, case "not complete, the
creation request of the next attempt is due and a task of the Job already carries its name"
(`case_adopt`): the create is answered AlreadyExists, the task — created by an earlier pass that failed
before recording it, and finished in the meantime — is adopted and recorded with its outcome; the Job
is finished if that decides it, and waits for the next retry otherwise.  Core Lean only.
-/
import FurikoModel.Proofs.JobCtlLive20

set_option linter.unusedSimpArgs false
set_option linter.unusedVariables false

namespace Furiko.JobCtl.Live
open Furiko Furiko.JobCtl Furiko.WQ Furiko.StatusLemmas Furiko.JobCtlPlan Furiko.Conv Furiko.ParallelLemmas

section
variable {ok : Sys → Action → Prop} {j0 jo : JobObj} {F0 : Int} {s : Sys}

/-- **not complete, the request is due, the name is taken by an unrecorded task of the Job** -/
theorem case_adopt (hok : ∀ s a, fairEnv s a → ok s a) (h : PState ok j0 jo F0 s) (k : String) (rest : List String)
    (hq : (s.q.advance s.clock).queue = k :: rest)
    (hclockT : s.clock < F0 + getTTLAfterFinished jo.job s.cfg)
    (hshape : ∀ r ∈ jo.job.status.tasks, Dead r ∨ LiveRef r)
    (hc' : (getParallelTaskSummary s.d jo.job
      (generateTaskRefs s.clock jo.job.status.tasks (foundTasks s jo))).complete = false)
    (hf : jo.job.status.tasks.any refActiveOrSuccessful = false)
    (hdue : DueReq s.clock (theReq s.d jo.job).earliest) (p : PodObj)
    (htaken : findPod s.pods (taskName jo.name s.d.hash jo.job.status.tasks.length) = some p) :
    ∃ jo', jo'.name = jo.name ∧ Canon ok j0 jo' F0 (deliverAll (work s).1) ∧
      ((Busy jo' (deliverAll (work s).1) ∧ mu jo' (deliverAll (work s).1) < muP jo s) ∨ Done jo' (deliverAll (work s).1)) ∧
      (deliverAll (work s).1).clock = s.clock ∧
      jo'.job.ttlSecondsAfterFinished = jo.job.ttlSecondsAfterFinished ∧ (deliverAll (work s).1).cfg = s.cfg ∧
      RefsStep s jo jo' (deliverAll (work s).1) := by
  have hc := h.canon
  obtain ⟨hdeadL, hlt, hnfin⟩ := notcomplete_facts h hshape hc'
  have hdead := allDead_of_notfound hshape hf
  have hm' : (theReq s.d jo.job).retryIndex = (jo.job.status.tasks.length : Int) := hc.nextRetry
  have hlt' : nextRetryIndex s.d jo.job.status.tasks s.d.hash < jo.job.maxAttempts := by rw [hc.nextRetry]; exact hlt
  have hpm := findPod_some htaken
  -- the task of the pod
  obtain ⟨t, ht⟩ := podTask_of_noPanic (hc.pods.sane p hpm.1).1
  have hlook : lookTask s (taskName jo.name s.d.hash jo.job.status.tasks.length) = some t := by
    unfold lookTask; rw [htaken]; exact ht
  obtain ⟨tg, tfin, tdel, tlb, _⟩ := h.task_facts hlook
  have htname : t.name = taskName jo.name s.d.hash jo.job.status.tasks.length := lookTask_name hlook
  have htfresh : t.name ∉ refNames jo.job := by rw [htname]; exact hc.freshName
  have htaken' : findPod (passStart s (popQ (s.q.advance s.clock) k rest)).pods
      (taskName jo.name (passStart s (popQ (s.q.advance s.clock) k rest)).d.hash
        (theReq (passStart s (popQ (s.q.advance s.clock) k rest)).d jo.job).retryIndex) = some p := by
    show findPod s.pods (taskName jo.name s.d.hash (theReq s.d jo.job).retryIndex) = some p
    rw [hm']; exact htaken
  have hcr := syncCreateTasks_adopt (passStart s (popQ (s.q.advance s.clock) k rest)) jo (foundTasks s jo) hc.spec
    ⟨hc.fresh.faults, rfl⟩ hc' hf hlt' hdue p t htaken' hc.fresh.podCache (hc.pods.owned p hpm.1).1 ht
  have hcr' : syncCreateTasks (passStart s (popQ (s.q.advance s.clock) k rest)) jo jo.job (foundTasks s jo) =
      ((updateTaskRefStatus (armEarliest (afterExists (passStart s (popQ (s.q.advance s.clock) k rest)) jo
          (theReq s.d jo.job).retryIndex) (jobKey jo) (theReq s.d jo.job).earliest) (jobKey jo) jo.job
          (foundTasks s jo ++ [t])).1,
        some (recompute s.clock s.d jo.job (foundTasks s jo ++ [t]), foundTasks s jo ++ [t])) := by
    rw [hcr, updateTaskRefStatus_snd]
    have e2 := (armEarliest_timersOnly (afterExists (passStart s (popQ (s.q.advance s.clock) k rest)) jo
        (theReq (passStart s (popQ (s.q.advance s.clock) k rest)).d jo.job).retryIndex) (jobKey jo)
        (theReq (passStart s (popQ (s.q.advance s.clock) k rest)).d jo.job).earliest).static
    rw [e2.1, e2.2.1]
    rfl
  -- the refs the pass generates
  have htT : t.name ∉ (foundTasks s jo).map (·.name) := by
    intro hm
    obtain ⟨t', ht', hn'⟩ := List.mem_map.mp hm
    obtain ⟨r, hr, hrt⟩ := List.mem_filterMap.mp ht'
    apply htfresh
    rw [← hn', lookTask_name hrt]
    exact List.mem_map.mpr ⟨r, hr, rfl⟩
  have hperm := gen_snoc h t tg.ok htfresh
  obtain ⟨x1, x2, x3⟩ := new_getTaskRef_finished tg tfin
  -- the adopted task carries the next retry number
  have hxr : (getTaskRef none t).retryIndex = (jo.job.status.tasks.length : Int) := by
    rw [(getTaskRef_fields none t).2.2.1, (podTask_index ht).2]
    obtain ⟨retry, hn, _, hri⟩ := hc.podName hpm.1
    rw [hri]
    rw [hpm.2] at hn
    exact ((taskName_inj hc.nodash hc.nodash hn).2).symm
  have hxh : (getTaskRef none t).hash s.d = s.d.hash := by
    unfold TaskRef.hash TaskRef.index
    rw [(getTaskRef_fields none t).2.1, (podTask_index ht).1]
    obtain ⟨_, _, hpi, _⟩ := hc.podName hpm.1
    rw [hpi]; rfl
  obtain ⟨b1, b2, b3, b4, b5, b6, b7⟩ := after_snoc h _ (getTaskRef none t) hperm hxr hxh
    (by intro f hf'; rw [(getTaskRef_none_fields t).2.1] at hf'; exact tlb f hf')
  have hT1nd : ((foundTasks s jo ++ [t]).map (·.name)).Nodup := by
    rw [List.map_append, List.nodup_append]
    refine ⟨h.consistent.nodup, by simp, ?_⟩
    intro a ha b hb
    simp only [List.map_cons, List.map_nil, List.mem_singleton] at hb
    subst hb
    intro e; subst e; exact htT ha
  obtain ⟨s', _, _, hpo, _, _⟩ := pass_uniform h k rest hq _ _ [] _ (foundTasks s jo ++ [t])
    (createOut_exists _ jo _)
    ((armEarliest_timersOnly _ (jobKey jo) _).trans (updateTaskRefStatus_fst _ (jobKey jo) jo.job _))
    hcr' (Or.inr rfl) hT1nd
    (by
      intro t' ht'
      rcases List.mem_append.mp ht' with ht' | ht'
      · exact ⟨(h.found_facts t' ht').1, (h.found_facts t' ht').2.2⟩
      · simp only [List.mem_singleton] at ht'; subst ht'; exact ⟨tg, tdel⟩)
    (by
      intro pt _ _ t' ht'
      rcases List.mem_append.mp ht' with ht' | ht'
      · exact Or.inl (h.found_facts t' ht').2.1
      · simp only [List.mem_singleton] at ht'; subst ht'; exact Or.inl tfin)
    b5 b4 hclockT (by simp)
  have hsame := recompute_sameSpec s.clock s.d jo.job (foundTasks s jo ++ [t])
  have hxname : (getTaskRef none t).name = taskName jo.name s.d.hash jo.job.status.tasks.length := by
    rw [(getTaskRef_fields none t).1, tg.ok, htname]
  -- every pod is recorded now
  have hrec : ∀ q ∈ s.pods, q.pod.name ∈ (generateTaskRefs s.clock jo.job.status.tasks (foundTasks s jo ++ [t])).map (·.name) := by
    intro q hq'
    rcases hc.unrec q hq' with hx | ⟨hn, _, _⟩
    · exact (b3 _).mpr (Or.inl hx)
    · exact (b3 _).mpr (Or.inr (by rw [hn, hxname]))
  obtain ⟨jo', hjob, hname, _, hcan, hqg, hclk, hpods, hd, hcfgw⟩ := canon_after hok h _ [] hpo hsame.2.2 (Or.inl rfl)
    (by rw [hsame.2.1]; exact b2)
    (by
      intro q hq'
      rw [List.append_nil] at hq'
      rw [hsame.2.1]
      exact Or.inl (hrec q hq'))
    (by rw [hsame.2.1]; exact b4)
  have htasks : jo'.job.status.tasks = generateTaskRefs s.clock jo.job.status.tasks (foundTasks s jo ++ [t]) := by
    rw [hjob]; exact hsame.2.1
  have hmax : jo'.job.maxAttempts = jo.job.maxAttempts := by rw [hjob]; rfl
  have hne : (recompute s.clock s.d jo.job (foundTasks s jo ++ [t])).status ≠ jo.job.status := by
    intro e
    have : (generateTaskRefs s.clock jo.job.status.tasks (foundTasks s jo ++ [t])).length = jo.job.status.tasks.length := by
      rw [← hsame.2.1, e]
    omega
  obtain ⟨j, restE, hev⟩ := hpo.wrote hne
  -- all generated refs are finished
  have hallfin : AllFin (generateTaskRefs s.clock jo.job.status.tasks (foundTasks s jo ++ [t])) := by
    intro g hg
    rcases b6 g hg with ⟨r0, hr0, rfl⟩ | rfl
    · exact (h.refP_facts hr0).1
    · exact x1
  have hcons : Consistent s jo.job.status.tasks (foundTasks s jo ++ [t]) :=
    h.consistent.snoc t (by rw [htname]; exact hlook) htT
  have hrs : RefsStep s jo jo' (deliverAll (work s).1) := by
    refine ⟨?_, Or.inl (by rw [hpods, List.append_nil])⟩
    intro g hg
    rw [htasks] at hg
    rcases b6 g hg with hx | rfl
    · exact Or.inl hx
    · refine Or.inr ⟨t, rfl, ?_, htname, hdead⟩
      unfold lookTask
      rw [hpods, List.append_nil, htname, hclk]
      exact hlook
  refine ⟨jo', hname, hcan, ?_, hclk, by rw [hjob], hcfgw, hrs⟩
  by_cases hdecided : t.ref.status.result = .succeeded ∨ (jo.job.status.tasks.length : Int) + 1 ≥ jo.job.maxAttempts
  · -- the adopted attempt decides the Job
    right
    have hjo' : jo'.job = recompute s.clock s.d jo.job (foundTasks s jo ++ [t]) := by
      rw [hjob]; exact (eq_of_sameSpec hsame.1).symm
    refine done_after h (foundTasks s jo ++ [t]) hcons ?_ _ jo' hjo' (by rw [hpods, List.append_nil]) hd b5 hallfin ?_ hrec
    · intro t' ht'
      rcases List.mem_append.mp ht' with ht' | ht'
      · exact (h.found_facts t' ht').1
      · simp only [List.mem_singleton] at ht'; subst ht'; exact tg
    · rcases hdecided with hs | hn
      · exact Or.inl ⟨_, b7, by rw [x2]; exact hs⟩
      · right
        rw [countP_terminal_of_allFin hallfin, b1]
        omega
  · -- the attempt failed and another one may be made
    left
    have hns : t.ref.status.result ≠ .succeeded := fun e => hdecided (Or.inl e)
    have hlt2 : (jo.job.status.tasks.length : Int) + 1 < jo.job.maxAttempts := by
      have : ¬ ((jo.job.status.tasks.length : Int) + 1 ≥ jo.job.maxAttempts) := fun e => hdecided (Or.inr e)
      omega
    have hdeadNew : ∀ g ∈ generateTaskRefs s.clock jo.job.status.tasks (foundTasks s jo ++ [t]), Dead g := by
      intro g hg
      rcases b6 g hg with ⟨r0, hr0, rfl⟩ | rfl
      · exact ((h.refP_facts hr0).2.2.2.2.1 (hdead r0 hr0)).1
      · exact x3 hns
    have hnocomp : ¬ (AllFin (generateTaskRefs s.clock jo.job.status.tasks (foundTasks s jo ++ [t])) ∧
        (AnySucc (generateTaskRefs s.clock jo.job.status.tasks (foundTasks s jo ++ [t])) ∨
          (((generateTaskRefs s.clock jo.job.status.tasks (foundTasks s jo ++ [t])).countP refTerminal : Nat) : Int) ≥
            jo.job.maxAttempts)) := by
      rintro ⟨_, hx | hx⟩
      · exact (allDead_facts hdeadNew).1 hx
      · rw [countP_terminal_of_allFin hallfin, b1] at hx
        omega
    refine ⟨⟨?_, ?_, Or.inl (deliverAll_ready _ j restE hev hpo.wf)⟩, ?_⟩
    · rw [hjob]
      exact (recompute_condition s.clock s.d jo.job _ hc.spec b5).2 hnocomp
    · intro r hr
      rw [htasks] at hr
      exact Or.inl (hdeadNew r hr)
    · have hfin' : AllFin jo'.job.status.tasks := by rw [htasks]; exact hallfin
      rw [mu_allFin jo' _ hfin', htasks, b1, hmax]
      unfold muP
      have hall : jo.job.status.tasks.all (fun r => r.finishTimestamp.isSome) = true :=
        all_fin_of_allFin (fun r hr => (hdead r hr).fin)
      rw [hall]
      simp only [↓reduceIte, hdue]
      split <;> omega

end

end Furiko.JobCtl.Live
