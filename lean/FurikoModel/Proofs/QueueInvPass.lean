/-
Preservation of `Inv` by the controller's writes and passes, and the instrumented pass
(`passLoopObs`, `workConfigObs`) used by C05 `never_over_limit`.
-/
import FurikoModel.Proofs.QueueInvSteps

set_option linter.unusedSimpArgs false
set_option linter.unusedVariables false

namespace Furiko.Queue
open Furiko.WQ

theorem isQueued_iff (j : JobV) : j.isQueued = true ↔ j.isStarted = false ∧ j.terminal = false := by
  unfold JobV.isQueued; cases j.isStarted <;> cases j.terminal <;> simp

theorem okFault_ne_applied {f : String} (h : okFault f) : f ≠ "applied-err" := by
  rcases h with rfl | rfl | rfl <;> decide

theorem Inv.nextFault_ne_applied {s : Sys} (h : Inv s) : nextFault s ≠ "applied-err" := by
  unfold nextFault
  cases hf : s.faults with
  | nil => decide
  | cons f rest =>
    simp only [List.headD_cons]
    exact okFault_ne_applied (h.faultsOk f (by rw [hf]; simp))

/-! ### failed write -/

theorem Inv_failWrite {s : Sys} (h : Inv s) (verb name res : String) (c : List (String × Int))
    (hc : ∀ uid, getCtr c uid = getCtr s.counter uid) :
    Inv { failWrite s verb name res with counter := c } :=
  Inv_congr h (Nat.le_refl _) rfl rfl rfl rfl (fun _ hn => hn) hc
    (h.ind_of_sub (fun k hk => hk)) (fun f hf => Or.inl (List.mem_of_mem_tail hf))

/-! ### reject write -/

theorem Inv_reject {s : Sys} (h : Inv s) {j : JobV} (m : String × Int) (hj : j ∈ s.jobCache)
    (hq : j.isQueued = true) : Inv (rejectJobWrite s j m).1 := by
  rcases rejectJobWrite_cases s j m with ⟨res, _, heq, _⟩ | ⟨cur, hf, hrv, _, _, heq⟩ |
      ⟨cur, _, _, _, _, heq⟩
  · rw [heq]
    exact Inv_failWrite h "reject" j.name res s.counter (fun _ => rfl)
  · rw [heq]
    have hcj : cur = j := h.cached_eq_cur hj hf hrv
    subst hcj
    obtain ⟨hst, hterm⟩ := (isQueued_iff cur).mp hq
    refine Inv_update (cur := cur) (nj := { rejectF m cur cur with rv := s.rv + 1 }) h hf ?_ rfl
      (fun hx => hx) rfl rfl rfl rfl rfl rfl ?_ rfl (fun f hf => List.mem_of_mem_tail hf)
    · simp [sameSpec, rejectF]
    · intro uid
      have : bonus cur { rejectF m cur cur with rv := s.rv + 1 } = 0 := by
        simp only [bonus, rejectF, JobV.isActive, JobV.isStarted] at hst ⊢
        simp [hst]
      simp [this, applyWrite]
  · rw [heq]
    exact Inv_failWrite h "reject" j.name "ok" s.counter (fun _ => rfl)

/-! ### start write with compare-and-swap (per-config path) -/

theorem Inv_startJob {s : Sys} (h : Inv s) {jc : JCV} {j : JobV} (old : Int) (hj : j ∈ s.jobCache)
    (hq : j.isQueued = true) (hl : j.label = some jc.uid) : Inv (startJob s jc j old).1 := by
  rcases startJob_cases s jc j old with ⟨_, heq⟩ | ⟨hcas, res, _, heq⟩ |
      ⟨hcas, cur, hf, hrv, _, ⟨_, heq⟩ | ⟨hap, _⟩⟩
  · rw [heq]; exact h
  · rw [heq]
    exact Inv_failWrite h "start" j.name res _ (getCtr_rollback hcas)
  · rw [heq]
    have hcj : cur = j := h.cached_eq_cur hj hf hrv
    subst hcj
    obtain ⟨hst, hterm⟩ := (isQueued_iff cur).mp hq
    refine Inv_update (cur := cur) (nj := { startF s.clock cur cur with rv := s.rv + 1 }) h hf ?_ rfl
      (fun hx => hx) rfl rfl rfl rfl rfl rfl ?_ rfl (fun f hf => List.mem_of_mem_tail hf)
    · simp [sameSpec, startF]
    · intro uid
      have : bonus cur { startF s.clock cur cur with rv := s.rv + 1 } = 1 := by
        simp only [bonus, startF, JobV.isActive, JobV.isStarted] at hst ⊢
        simp [hst, hterm]
      simp only [this, hl, Option.some.injEq, getCtr_setCtr]
      split
      · subst_vars; rfl
      · simp
  · exact absurd hap h.nextFault_ne_applied

/-! ### start write without the counter (independent path) -/

theorem Inv_startInd {s : Sys} (h : Inv s) {j : JobV} (hj : j ∈ s.jobCache)
    (hq : j.isQueued = true) (hl : j.label = none) : Inv (startJobWrite s j).1 := by
  rw [startJobWrite_eq]
  rcases apiWriteJob_cases s "start" j (startF s.clock j) with ⟨res, _, heq, _⟩ | ⟨cur, hf, hrv, _, heq⟩
  · rw [heq]
    exact Inv_failWrite h "start" j.name res s.counter (fun _ => rfl)
  · rw [heq]
    have hcj : cur = j := h.cached_eq_cur hj hf hrv
    subst hcj
    refine Inv_update (cur := cur) (nj := { startF s.clock cur cur with rv := s.rv + 1 }) h hf ?_ rfl
      (fun hx => hx) rfl rfl rfl rfl rfl rfl ?_ rfl (fun f hf => List.mem_of_mem_tail hf)
    · simp [sameSpec, startF]
    · intro uid; simp [hl, applyWrite]

/-! ### frames of `canStartJob` / `startJob` -/

theorem rejectJobWrite_cache (s : Sys) (j : JobV) (m : String × Int) :
    (rejectJobWrite s j m).1.jobCache = s.jobCache := by
  rcases rejectJobWrite_cases s j m with ⟨res, _, heq, _⟩ | ⟨cur, _, _, _, _, heq⟩ |
      ⟨cur, _, _, _, _, heq⟩ <;> rw [heq] <;> rfl

theorem canStartJob_cache (s : Sys) (jc : JCV) (j : JobV) (ac : Int) :
    (canStartJob s jc j ac).1.jobCache = s.jobCache := by
  rcases canStartJob_cases s jc j ac with ⟨_, heq⟩ | ⟨_, _, heq⟩ | ⟨_, _, _, _, heq⟩ |
      ⟨_, _, _, _, heq⟩ | ⟨_, _, _, heq⟩ <;> rw [heq]
  exact rejectJobWrite_cache s j _

theorem startJob_cache (s : Sys) (jc : JCV) (j : JobV) (old : Int) :
    (startJob s jc j old).1.jobCache = s.jobCache := by
  rcases startJob_cases s jc j old with ⟨_, heq⟩ | ⟨_, res, _, heq⟩ |
      ⟨_, cur, _, _, _, ⟨_, heq⟩ | ⟨_, heq⟩⟩ <;> rw [heq] <;> rfl

theorem Inv_canStartJob {s : Sys} (h : Inv s) (jc : JCV) {j : JobV} (ac : Int)
    (hj : j ∈ s.jobCache) (hq : j.isQueued = true) : Inv (canStartJob s jc j ac).1 := by
  rcases canStartJob_cases s jc j ac with ⟨_, heq⟩ | ⟨_, _, heq⟩ | ⟨_, _, _, _, heq⟩ |
      ⟨_, _, _, _, heq⟩ | ⟨_, _, _, heq⟩ <;> rw [heq]
  · exact h
  · exact Inv_congr h (Nat.le_refl _) rfl rfl rfl rfl (fun _ hn => hn) (fun _ => rfl)
      (h.ind_of_sub (fun k hk => hk)) (fun f hf => Or.inl hf)
  · exact Inv_reject h _ hj hq
  · exact h
  · exact h


/-! ### the instrumented pass -/

/-- ghost observation of one applied start write of the per-config pass -/
structure StartObs where
  job : JobV              -- the cached Job that was started
  uid : String            -- the JobConfig's uid
  activeBefore : Nat      -- `trueActive` of that uid in the state just before the write
  maxConc : Int           -- the limit the pass used
  deriving Repr

/-- `passLoop` that additionally reports every start write that was APPLIED to the API (detected
by the resourceVersion counter moving), whether or not it was reported as successful. -/
def passLoopObs (jc : JCV) : List JobV → Sys → Int → (Sys × Bool) × List StartObs
  | [], s, _ => ((s, true), [])
  | j :: rest, s, activeCount =>
    match canStartJob s jc j activeCount with
    | (s1, .error) => ((s1, false), [])
    | (s1, .skip) => passLoopObs jc rest s1 activeCount
    | (s1, .start) =>
      let obs : List StartObs :=
        if (startJob s1 jc j activeCount).1.rv ≠ s1.rv
        then [⟨j, jc.uid, trueActive s1 jc.uid, jc.maxConc⟩] else []
      match startJob s1 jc j activeCount with
      | (s2, false) => ((s2, false), obs)
      | (s2, true) =>
        let r := passLoopObs jc rest s2 (getCtr s2.counter jc.uid)
        (r.1, obs ++ r.2)

def syncConfigObs (s : Sys) (name : String) : (Sys × Bool) × List StartObs :=
  match findJC s.jcCache name with
  | none => ((s, true), [])
  | some jc =>
    let rjs := listQueued s.jobCache jc
    if rjs.isEmpty then ((s, true), [])
    else passLoopObs jc rjs s (getCtr s.counter jc.uid)

def workConfigObs (s : Sys) : (Sys × String) × List StartObs :=
  let s := { s with cfgQ := s.cfgQ.advance s.clock, calls := [] }
  match s.cfgQ.get with
  | none => ((s, "idle"), [])
  | some (k, q1) =>
    let r := syncConfigObs { s with cfgQ := q1 } (keyName k)
    let s1 := r.1.1
    let ok := r.1.2
    let q2 := if ok then s1.cfgQ.forget k else s1.cfgQ.addRateLimited k s1.clock
    (({ s1 with cfgQ := q2.done k }, if ok then "ok" else "err"), r.2)

/-- erasure: the instrumented pass computes the same state and result -/
theorem passLoopObs_fst (jc : JCV) (rjs : List JobV) (s : Sys) (ac : Int) :
    (passLoopObs jc rjs s ac).1 = passLoop jc rjs s ac := by
  induction rjs generalizing s ac with
  | nil => simp [passLoopObs, passLoop]
  | cons j rest ih =>
    simp only [passLoopObs, passLoop]
    rcases hc : canStartJob s jc j ac with ⟨s1, v⟩
    cases v with
    | error => rfl
    | skip => exact ih s1 ac
    | start =>
      simp only
      rcases hs : startJob s1 jc j ac with ⟨s2, ok⟩
      cases ok with
      | false => rfl
      | true => exact ih s2 _

theorem syncConfigObs_fst (s : Sys) (name : String) : (syncConfigObs s name).1 = syncConfig s name := by
  unfold syncConfigObs syncConfig
  cases findJC s.jcCache name with
  | none => rfl
  | some jc =>
    simp only
    split
    · rfl
    · exact passLoopObs_fst _ _ _ _

theorem workConfigObs_fst (s : Sys) : (workConfigObs s).1 = workConfig s := by
  unfold workConfigObs workConfig
  simp only
  cases (s.cfgQ.advance s.clock).get with
  | none => rfl
  | some p =>
    obtain ⟨k, q1⟩ := p
    simp only [syncConfigObs_fst]

/-- what the invariant gives for every observation -/
def ObsOK (o : StartObs) : Prop :=
  o.job.label = some o.uid ∧
  (o.job.hasPolicy = true → (o.job.policy = 1 ∨ o.job.policy = 2) →
      (o.activeBefore : Int) + 1 ≤ o.maxConc)

theorem passLoopObs_inv (jc : JCV) (rjs : List JobV) (s : Sys) (ac : Int) (h : Inv s)
    (hrjs : ∀ j ∈ rjs, j ∈ s.jobCache ∧ j.label = some jc.uid ∧ j.isQueued = true) :
    Inv (passLoopObs jc rjs s ac).1.1 ∧ ∀ o ∈ (passLoopObs jc rjs s ac).2, ObsOK o := by
  induction rjs generalizing s ac with
  | nil => exact ⟨h, by simp [passLoopObs]⟩
  | cons j rest ih =>
    obtain ⟨hjc, hjl, hjq⟩ := hrjs j (by simp)
    have hinv1 := Inv_canStartJob h jc ac hjc hjq
    have hcache1 := canStartJob_cache s jc j ac
    have hv := canStartJob_start_iff s jc j ac
    simp only [passLoopObs]
    rcases hc : canStartJob s jc j ac with ⟨s1, v⟩
    rw [hc] at hinv1 hcache1 hv
    simp only at hinv1 hcache1 hv
    have hrest : ∀ s' : Sys, s'.jobCache = s1.jobCache →
        ∀ x ∈ rest, x ∈ s'.jobCache ∧ x.label = some jc.uid ∧ x.isQueued = true := by
      intro s' hs' x hx
      obtain ⟨h1, h2, h3⟩ := hrjs x (by simp [hx])
      exact ⟨by rw [hs', hcache1]; exact h1, h2, h3⟩
    cases v with
    | error => exact ⟨hinv1, by simp⟩
    | skip => exact ih s1 ac hinv1 (hrest s1 rfl)
    | start =>
      simp only
      have hsv : startVerdict jc s.clock j ac := hv.mp rfl
      -- verdict `start` leaves the state untouched
      have hs1 : s1 = s := by
        rcases canStartJob_cases s jc j ac with ⟨_, heq⟩ | ⟨_, _, heq⟩ | ⟨_, _, _, _, heq⟩ |
            ⟨_, _, _, _, heq⟩ | ⟨_, _, _, heq⟩ <;> rw [hc] at heq
        · exact (Prod.mk.inj heq).1
        · exact absurd (Prod.mk.inj heq).2 (by decide)
        · have := (Prod.mk.inj heq).2; split at this <;> exact absurd this (by decide)
        · exact absurd (Prod.mk.inj heq).2 (by decide)
        · exact (Prod.mk.inj heq).1
      subst hs1
      have hjc1 : j ∈ s1.jobCache := hjc
      have hinv2 := Inv_startJob hinv1 (jc := jc) ac hjc1 hjq hjl
      have hcache2 := startJob_cache s1 jc j ac
      -- the observation, if any, is within the limit
      have hobs : ∀ o ∈ (if (startJob s1 jc j ac).1.rv ≠ s1.rv
          then [(⟨j, jc.uid, trueActive s1 jc.uid, jc.maxConc⟩ : StartObs)] else []), ObsOK o := by
        intro o ho
        split at ho
        · rename_i hrvne
          simp only [List.mem_singleton] at ho; subst ho
          refine ⟨hjl, fun hp hpol => ?_⟩
          simp only
          have hcas : getCtr s1.counter jc.uid = ac := by
            rcases startJob_cases s1 jc j ac with ⟨_, heq⟩ | ⟨hcas, _⟩ | ⟨hcas, _⟩
            · rw [heq] at hrvne; exact absurd rfl hrvne
            · exact hcas
            · exact hcas
          have hup := hinv1.counter_upper jc.uid
          rw [trueActive_eq]
          have hnl : ¬ overLimit jc ac := fun hl => hsv.2 ⟨hp, hpol, hl⟩
          unfold overLimit at hnl
          omega
        · simp at ho
      rcases hs : startJob s1 jc j ac with ⟨s2, ok⟩
      rw [hs] at hinv2 hcache2 hobs
      simp only at hinv2 hcache2 hobs
      cases ok with
      | false => exact ⟨hinv2, hobs⟩
      | true =>
        simp only
        obtain ⟨hi, ho⟩ := ih s2 (getCtr s2.counter jc.uid) hinv2 (hrest s2 hcache2)
        refine ⟨hi, fun o hmem => ?_⟩
        rcases List.mem_append.mp hmem with hm | hm
        · exact hobs o hm
        · exact ho o hm


/-! ### `syncConfig` / `workConfig` -/

private theorem mem_insertByCreated_aux {j x : JobV} {l : List JobV}
    (h : x ∈ insertByCreated j l) : x = j ∨ x ∈ l := by
  induction l with
  | nil => simp [insertByCreated] at h; exact Or.inl h
  | cons y rest ih =>
    simp only [insertByCreated] at h
    split at h
    · simp only [List.mem_cons] at h ⊢; exact h
    · simp only [List.mem_cons] at h ⊢
      rcases h with h | h
      · exact Or.inr (Or.inl h)
      · rcases ih h with h' | h'
        · exact Or.inl h'
        · exact Or.inr (Or.inr h')

private theorem mem_foldl_insertByCreated_aux {l acc : List JobV} {x : JobV}
    (h : x ∈ l.foldl (fun acc j => insertByCreated j acc) acc) : x ∈ l ∨ x ∈ acc := by
  induction l generalizing acc with
  | nil => exact Or.inr h
  | cons y rest ih =>
    simp only [List.foldl_cons] at h
    rcases ih h with h' | h'
    · exact Or.inl (List.mem_cons_of_mem _ h')
    · rcases mem_insertByCreated_aux h' with h'' | h''
      · exact Or.inl (by simp [h''])
      · exact Or.inr h''

theorem listQueued_mem_props {cache : List JobV} {jc : JCV} {j : JobV}
    (h : j ∈ listQueued cache jc) :
    j ∈ cache ∧ j.label = some jc.uid ∧ j.isQueued = true := by
  unfold listQueued at h
  rcases mem_foldl_insertByCreated_aux h with h' | h'
  · have := List.mem_filter.mp h'
    simp only [Bool.and_eq_true, decide_eq_true_eq] at this
    exact ⟨this.1, this.2.1, this.2.2⟩
  · simp at h'

theorem syncConfigObs_inv (s : Sys) (name : String) (h : Inv s) :
    Inv (syncConfigObs s name).1.1 ∧ ∀ o ∈ (syncConfigObs s name).2, ObsOK o := by
  unfold syncConfigObs
  cases findJC s.jcCache name with
  | none => exact ⟨h, by simp⟩
  | some jc =>
    simp only
    split
    · exact ⟨h, by simp⟩
    · exact passLoopObs_inv jc _ s _ h (fun j hj => listQueued_mem_props hj)

theorem workConfigObs_inv (s : Sys) (h : Inv s) :
    Inv (workConfigObs s).1.1 ∧ ∀ o ∈ (workConfigObs s).2, ObsOK o := by
  unfold workConfigObs
  simp only
  have h0 : Inv { s with cfgQ := s.cfgQ.advance s.clock, calls := [] } :=
    Inv_congr h (Nat.le_refl _) rfl rfl rfl rfl (fun _ hn => hn) (fun _ => rfl)
      (h.ind_of_sub (fun k hk => hk)) (fun f hf => Or.inl hf)
  cases (s.cfgQ.advance s.clock).get with
  | none => exact ⟨h0, by simp⟩
  | some p =>
    obtain ⟨k, q1⟩ := p
    simp only
    have h1 : Inv { s with cfgQ := q1, calls := [] } :=
      Inv_congr h (Nat.le_refl _) rfl rfl rfl rfl (fun _ hn => hn) (fun _ => rfl)
        (h.ind_of_sub (fun k hk => hk)) (fun f hf => Or.inl hf)
    obtain ⟨h2, hobs⟩ := syncConfigObs_inv { s with cfgQ := q1, calls := [] } (keyName k) h1
    refine ⟨?_, hobs⟩
    exact Inv_congr h2 (Nat.le_refl _) rfl rfl rfl rfl (fun _ hn => hn) (fun _ => rfl)
      (h2.ind_of_sub (fun k hk => hk)) (fun f hf => Or.inl hf)

theorem Inv_workConfig {s : Sys} (h : Inv s) : Inv (workConfig s).1 := by
  rw [← workConfigObs_fst]; exact (workConfigObs_inv s h).1

/-! ### `syncIndependent` / `workIndependent` -/

theorem Inv_syncIndependent {s : Sys} (h : Inv s) {k : String} (hk : k ∈ s.indQ.processing) :
    Inv (syncIndependent s (keyName k)).1 ∧
      (syncIndependent s (keyName k)).1.indQ.processing = s.indQ.processing := by
  have hkk : k ∈ s.indQ.keys := by simp [mem_keys, hk]
  unfold syncIndependent
  cases hf : findJob s.jobCache (keyName k) with
  | none => exact ⟨h, rfl⟩
  | some j =>
    simp only
    have hjc : j ∈ s.jobCache := findJob_some_mem hf
    have hjn : j.name = keyName k := findJob_some_name hf
    have hlab : j.label = none := h.ind k hkk j (Or.inr (Or.inl hjc)) hjn
    by_cases hq : j.isQueued = true
    · simp only [hq, Bool.not_true, Bool.false_eq_true, if_false]
      split
      · refine ⟨?_, rfl⟩
        refine Inv_congr h (Nat.le_refl _) rfl rfl rfl rfl (fun _ hn => hn) (fun _ => rfl) ?_
          (fun f hf => Or.inl hf)
        intro k' hk' x hx hxn
        simp only at hk'
        rcases mem_keys_addAfter hk' with hk' | rfl
        · exact h.ind k' hk' x hx hxn
        · rw [keyName_ns] at hxn
          exact h.ind k hkk x hx hxn
      · refine ⟨Inv_startInd h hjc hq hlab, ?_⟩
        rw [startJobWrite_eq]
        rcases apiWriteJob_cases s "start" j (startF s.clock j) with ⟨res, _, heq, _⟩ |
          ⟨cur, _, _, _, heq⟩ <;> rw [heq] <;> rfl
    · simp only [hq, Bool.not_false, if_true]
      exact ⟨h, trivial⟩

theorem Inv_workIndependent {s : Sys} (h : Inv s) : Inv (workIndependent s).1 := by
  unfold workIndependent
  simp only
  have hadv : ∀ k ∈ (s.indQ.advance s.clock).keys, k ∈ s.indQ.keys := fun k hk => mem_keys_advance hk
  have h0 : Inv { s with indQ := s.indQ.advance s.clock, calls := [] } :=
    Inv_congr h (Nat.le_refl _) rfl rfl rfl rfl (fun _ hn => hn) (fun _ => rfl)
      (h.ind_of_sub hadv) (fun f hf => Or.inl hf)
  cases hg : (s.indQ.advance s.clock).get with
  | none => exact h0
  | some p =>
    obtain ⟨k, q1⟩ := p
    simp only
    obtain ⟨hkq, hsub⟩ := mem_keys_get hg
    obtain ⟨rest, _, hq1⟩ := get_some hg
    have hproc : k ∈ q1.processing := by rw [hq1]; simp
    have h1 : Inv { s with indQ := q1, calls := [] } :=
      Inv_congr h (Nat.le_refl _) rfl rfl rfl rfl (fun _ hn => hn) (fun _ => rfl)
        (h.ind_of_sub (fun k' hk' => hadv k' (hsub k' hk'))) (fun f hf => Or.inl hf)
    obtain ⟨h2, hp2⟩ := Inv_syncIndependent (s := { s with indQ := q1, calls := [] }) h1 (k := k) hproc
    have hk2 : k ∈ (syncIndependent { s with indQ := q1, calls := [] } (keyName k)).1.indQ.keys := by
      simp only [mem_keys, hp2]; exact Or.inr (Or.inr (Or.inl hproc))
    refine Inv_congr h2 (Nat.le_refl _) rfl rfl rfl rfl (fun _ hn => hn) (fun _ => rfl) ?_
      (fun f hf => Or.inl hf)
    intro k' hk'
    simp only at hk'
    have : k' ∈ (syncIndependent { s with indQ := q1, calls := [] } (keyName k)).1.indQ.keys := by
      rcases mem_keys_done hk' with hk' | rfl
      · split at hk'
        · exact hk'
        · rcases mem_keys_addRateLimited hk' with hk' | rfl
          · exact hk'
          · exact hk2
      · exact hk2
    exact h2.ind k' this

/-! ### every reachable state satisfies the invariant -/

theorem Inv_step {s : Sys} (h : Inv s) {a : Act} (ha : Allowed s a) : Inv (step s a) := by
  cases a with
  | addJC jc => exact Inv_addJC h jc
  | addJob j => exact Inv_addJob h ha
  | finishJob n => exact Inv_finish h n
  | markRejected n => exact Inv_finish h n
  | removeJob n => exact Inv_removeJob h n
  | editStartAfter n t => exact Inv_editStartAfter h n t
  | setMaxConc n m => exact Inv_setMaxConc h n m
  | tick d => exact Inv_tick h d
  | deliverJob => exact Inv_deliverJob h
  | deliverJC => exact Inv_deliverJC h
  | notifyStore => exact Inv_notifyStore h
  | notifyCtrl => exact Inv_notifyCtrl h
  | resync => exact Inv_resync h
  | fault f => exact Inv_fault h ha
  | workConfig => exact Inv_workConfig h
  | workIndependent => exact Inv_workIndependent h
  | restart => exact Inv_restart h.apiOK

theorem Reachable.inv {s : Sys} (h : Reachable s) : Inv s := by
  induction h with
  | boot s hs => exact Inv_restart hs
  | step s a _ ha ih => exact Inv_step ih ha

theorem reachable_init : Reachable ({} : Sys) := by
  have h : ApiOK ({} : Sys) := ⟨by simp [names], by simp, by simp⟩
  have := Reachable.boot _ h
  exact this

end Furiko.Queue
