/-
Where pods come from: in a controller pass every pod name that is new on the server was created for
a request `ComputeMissingIndexesForCreation` computed from the CACHED Job; no other action except
`createForeign` adds a pod name.  Core Lean only.
-/
import FurikoModel.Proofs.JobCtlInvGone
import FurikoModel.Props.C08

set_option linter.unusedSimpArgs false
set_option linter.unusedVariables false

namespace Furiko.JobCtl
open Furiko Furiko.WQ Furiko.ParallelLemmas

/-- the pod name is old, or it was created in this pass for a creation request -/
def NameOrigin (d : PIndex) (jo : JobObj) (old : List String) (n : String) : Prop :=
  n ∈ old ∨ ∃ idx retry, CreateReq d jo idx retry ∧ n = taskName jo.name idx.hash retry

theorem Micro.pod_names {jo : JobObj} {sp s s' : Sys} (hm : Micro jo sp s s') :
    ∀ n ∈ podNames s'.pods, NameOrigin s.d jo (podNames s.pods) n := by
  intro n hn
  cases hm with
  | frame hf => rw [hf.pods] at hn; exact Or.inl hn
  | create idx retry hreq _ =>
    rcases apiCreatePod_spec s jo idx retry with h | h
    · rw [h.1.pods] at hn; exact Or.inl hn
    · rw [h.1.pods] at hn
      unfold podNames at hn
      rw [List.map_append] at hn
      rcases List.mem_append.mp hn with hn | hn
      · exact Or.inl hn
      · simp only [List.map_cons, List.map_nil, List.mem_singleton] at hn
        exact Or.inr ⟨idx, retry, hreq, hn⟩
  | delPod name force =>
    rcases apiDeletePod_spec s name force with h | ⟨p, _, h, _⟩ | ⟨p, _, _, _, h⟩
    · rw [h.pods] at hn; exact Or.inl hn
    · rw [h.pods] at hn
      obtain ⟨q, hq, rfl⟩ := List.mem_map.mp hn
      exact Or.inl (List.mem_map_of_mem (mem_delPod hq).1)
    · rw [h.pods] at hn
      have hmem : ({ p with pod := { p.pod with deletionTimestamp := some (nowT s) } } : PodObj).pod.name ∈
          podNames s.pods := by
        have := findPod_some h.found
        exact List.mem_map.mpr ⟨p, this.1, this.2.symm⟩
      rw [podNames_setPod_of_mem hmem] at hn
      exact Or.inl hn
  | delJob =>
    rcases apiDeleteJob_spec s jo with h | ⟨c, _, _, _, h⟩ | ⟨c, _, _, h⟩
    · rw [h.pods] at hn; exact Or.inl hn
    · rw [h.pods] at hn; exact Or.inl hn
    · rw [h.pods] at hn; exact Or.inl hn
  | updJob _ =>
    rw [apiUpdateJob_pods] at hn; exact Or.inl hn
  | updStatus =>
    rw [apiUpdateJobStatus_pods] at hn; exact Or.inl hn
  | updStatusOn s1 hs1 hs hok =>
    rw [apiUpdateJobStatus_pods] at hn; exact Or.inl hn

theorem Micros.pod_names {jo : JobObj} {sp s s' : Sys} (hm : Micros jo sp s s') :
    ∀ n ∈ podNames s'.pods, NameOrigin s.d jo (podNames s.pods) n := by
  induction hm with
  | refl => intro n hn; exact Or.inl hn
  | tail hms hm ih =>
    intro n hn
    rcases hm.pod_names n hn with h | ⟨idx, retry, hreq, he⟩
    · exact ih n h
    · rw [hms.static.d] at hreq
      exact Or.inr ⟨idx, retry, hreq, he⟩

/-- every pod name that a pass adds to the server stands for a creation request computed from the
cached Job -/
theorem work_new_pod_names (s : Sys) (n : String) (hn : n ∈ podNames (work s).1.pods) (hnew : n ∉ podNames s.pods) :
    ∃ jo idx retry, s.jobCache = some jo ∧ CreateReq s.d jo idx retry ∧ n = taskName jo.name idx.hash retry := by
  cases hc : s.jobCache with
  | none => rw [(work_frame s hc).pods] at hn; exact absurd hn hnew
  | some jo =>
    obtain ⟨sp, hf, hm⟩ := work_micros s jo hc
    rcases hm.pod_names n hn with h | ⟨idx, retry, hreq, he⟩
    · rw [hf.pods] at h; exact absurd h hnew
    · rw [hf.d] at hreq
      exact ⟨jo, idx, retry, rfl, hreq, he⟩

/-- no action other than a controller pass and `createForeign` adds a pod name -/
theorem step_pod_names (s : Sys) (a : Action) (hw : a ≠ .work) (hf : ∀ p, a ≠ .createForeign p) :
    ∀ n ∈ podNames (step s a).pods, n ∈ podNames s.pods := by
  intro n hn
  cases a with
  | setFaults fs => exact hn
  | work => exact absurd rfl hw
  | deliverJob => rw [show (step s .deliverJob).pods = s.pods from (deliverJob_fields s).2.2.1] at hn; exact hn
  | deliverPod => rw [show (step s .deliverPod).pods = s.pods from (deliverPod_fields s).2.2.1] at hn; exact hn
  | resync => rw [show (step s .resync).pods = s.pods from (resync_frame s).pods] at hn; exact hn
  | restart =>
    have : (step s .restart).pods = s.pods := by
      show (restart s).pods = s.pods
      unfold restart; cases s.job <;> rfl
    rw [this] at hn; exact hn
  | advance d => exact hn
  | kubelet p =>
    have hn' : n ∈ podNames (setPodState s p).pods := hn
    rcases setPodState_spec s p with h | ⟨old, h⟩
    · rw [h] at hn'; exact hn'
    · rw [h.pods] at hn'
      have hmem : p.pod.name ∈ podNames s.pods :=
        List.mem_map.mpr ⟨old, (findPod_some h.found).1, (findPod_some h.found).2⟩
      rw [podNames_setPod_of_mem hmem] at hn'; exact hn'
  | podGone m =>
    have hn' : n ∈ podNames (removePod s m).pods := hn
    rcases removePod_spec s m with h | ⟨p, _, h⟩
    · rw [h] at hn'; exact hn'
    · rw [h.pods] at hn'
      obtain ⟨q, hq, rfl⟩ := List.mem_map.mp hn'
      exact List.mem_map_of_mem (mem_delPod hq).1
  | externalDelete m =>
    have hn' : n ∈ podNames (removePod s m).pods := hn
    rcases removePod_spec s m with h | ⟨p, _, h⟩
    · rw [h] at hn'; exact hn'
    · rw [h.pods] at hn'
      obtain ⟨q, hq, rfl⟩ := List.mem_map.mp hn'
      exact List.mem_map_of_mem (mem_delPod hq).1
  | kill t =>
    have hn' : n ∈ podNames (mutateJobObj s _).pods := hn
    rcases mutateJobObj_spec s (fun j => { j with job := { j.job with killTimestamp := some t } }) with h | ⟨c, _, h⟩
    · rw [h.2] at hn'; exact hn'
    · rw [h.pods] at hn'; exact hn'
  | userDelete =>
    have hn' : n ∈ podNames (userDeleteJob s).pods := hn
    rcases userDeleteJob_spec s with h | ⟨c, _, _, _, h⟩ | ⟨c, _, _, h⟩
    · rw [h] at hn'; exact hn'
    · rw [h.pods] at hn'; exact hn'
    · rw [h.pods] at hn'; exact hn'
  | createForeign p => exact absurd rfl (hf p)

/-- what a creation request says, under `NoCollision` (from `C08.computeMissing_sound`) -/
theorem createReq_sound {d : PIndex} {jo : JobObj} {idx : PIndex} {retry : Int} (h : CreateReq d jo idx retry)
    (hnc : NoCollision (jo.job.indexes d)) :
    isStarted jo.job = true ∧ isDeleted jo.job = false ∧ canCreateTask jo.job = true ∧
    idx ∈ jo.job.indexes d ∧
    (∀ t ∈ jo.job.status.tasks, t.hash d = idx.hash → t.finishTimestamp.isSome = true ∧ t.status.result ≠ .succeeded) ∧
    retry = nextRetryIndex d jo.job.status.tasks idx.hash ∧ 0 ≤ retry ∧ retry < jo.job.maxAttempts := by
  obtain ⟨h1, h2, h3, reqs, e, hreqs, hmem⟩ := h
  have hs := Furiko.Props.C08.computeMissing_sound d jo.job _ reqs hnc hreqs _ hmem
  have hf := createReq_facts (⟨h1, h2, h3, reqs, e, hreqs, hmem⟩ : CreateReq d jo idx retry)
  refine ⟨h1, h2, h3, hs.1, ?_, hs.2.2.1, hf.2.2.1, hs.2.2.2.1⟩
  intro t ht hh
  have hnb := hs.2.1 t ht hh
  unfold Furiko.Props.C08.Blocking at hnb
  constructor
  · cases hft : t.finishTimestamp with
    | none => exact absurd (Or.inl hft) hnb
    | some _ => rfl
  · intro hr; exact hnb (Or.inr hr)

end Furiko.JobCtl
