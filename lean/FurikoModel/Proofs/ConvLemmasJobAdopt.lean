/-
Helpers for Props/C20Inst, part 5: a job-controller pass that RETURNS OK records, in the status it
writes, a task for every creation request of its loop that was due — in particular the pod that an
earlier, faulted pass created without recording (create ↦ AlreadyExists ↦ adopt ↦ record).
Core Lean only.
-/
import FurikoModel.Proofs.ConvLemmasJob
import FurikoModel.Props.C11

set_option linter.unusedVariables false
set_option linter.unusedSimpArgs false

namespace Furiko.Conv
open Furiko Furiko.JobCtl Furiko.WQ Furiko.JobCtlPlan

/-! ### one request of the creation loop -/

/-- a create that did not fail hands on a task named after the request, provided a pod-cache entry
of that name (if there is one) is controlled by this Job -/
theorem syncCreateTask_named (s : Sys) (jo : JobObj) (rj : Job) (tasks : List Task) (idx : PIndex) (retry : Int)
    (rj' : Job) (tasks' : List Task)
    (h : (syncCreateTask s jo rj tasks idx retry).2 = some (rj', tasks'))
    (hown : ∀ p, findPod s.podCache (taskName jo.name idx.hash retry) = some p → p.ownerUid = some jo.uid) :
    ∃ t, tasks' = tasks ++ [t] ∧ t.name = taskName jo.name idx.hash retry := by
  rw [syncCreateTask_eq] at h
  simp only at h
  have hpc : (apiCreatePod s jo idx retry).1.podCache = s.podCache := by
    obtain ⟨c, e, _⟩ := apiCreatePod_ext s jo idx retry
    exact e.podCache
  rcases apiCreatePod_spec s jo idx retry with ⟨_, hnok⟩ | ⟨_, hres⟩
  · -- nothing created: err or exists
    cases hr : (apiCreatePod s jo idx retry).2 with
    | ok p => exact absurd hr (hnok p)
    | err => rw [hr] at h; simp [createOut] at h
    | «exists» =>
      rw [hr] at h
      simp only [createOut, hpc] at h
      cases hf : findPod s.podCache (taskName jo.name idx.hash retry) with
      | none => rw [hf] at h; simp at h
      | some p =>
        rw [hf] at h
        simp only [hown p hf, if_true] at h
        cases ht : podTask s.clock p with
        | none => rw [ht] at h; simp at h
        | some t =>
          rw [ht] at h
          simp only [Option.map_some, Option.some.injEq, Prod.mk.injEq] at h
          exact ⟨t, h.2.symm, by rw [(podTask_ok ht).2]; exact (JobCtl.findPod_some hf).2⟩
  · rcases hres with hr | hr
    · rw [hr] at h
      simp only [createOut] at h
      cases ht : podTask s.clock (newPod jo idx retry (nowT s)) with
      | none => rw [ht] at h; simp at h
      | some t =>
        rw [ht] at h
        simp only [Option.map_some, Option.some.injEq, Prod.mk.injEq] at h
        exact ⟨t, h.2.symm, by rw [(podTask_ok ht).2]; rfl⟩
    · rw [hr] at h; simp [createOut] at h

theorem syncCreateTask_static (s : Sys) (jo : JobObj) (rj : Job) (tasks : List Task) (idx : PIndex) (retry : Int) :
    (syncCreateTask s jo rj tasks idx retry).1.podCache = s.podCache ∧
    (syncCreateTask s jo rj tasks idx retry).1.clock = s.clock := by
  obtain ⟨c, e, _⟩ := syncCreateTask_ext s jo rj tasks idx retry
  exact ⟨e.podCache, e.clock⟩

/-- the tasks the loop returns extend the tasks it started with -/
theorem createLoop_extends (jo : JobObj) (reqs : List CreationRequest) (s : Sys) (rj : Job) (tasks : List Task)
    (minE : Option Time) (rj' : Job) (tasks' : List Task) (m : Option Time)
    (h : (createLoop jo reqs s rj tasks minE).2 = some (rj', tasks', m)) : ∀ t ∈ tasks, t ∈ tasks' := by
  obtain ⟨l, _, _, _, hres⟩ := createLoop_ext jo reqs s rj tasks minE
  obtain ⟨_, _, _, _, _, extra, he, _⟩ := hres rj' tasks' m h
  intro t ht
  rw [he]
  exact List.mem_append_left _ ht

/-- **a creation loop that did not fail returns, for every due request, a task named after it** -/
theorem createLoop_covers (jo : JobObj) : ∀ (reqs : List CreationRequest) (s : Sys) (rj : Job) (tasks : List Task)
    (minE : Option Time) (rj' : Job) (tasks' : List Task) (m : Option Time) (r : CreationRequest),
    (createLoop jo reqs s rj tasks minE).2 = some (rj', tasks', m) → r ∈ reqs → reqDueNow s.clock r →
    (∀ p, findPod s.podCache (taskName jo.name r.index.hash r.retryIndex) = some p → p.ownerUid = some jo.uid) →
    ∃ t ∈ tasks', t.name = taskName jo.name r.index.hash r.retryIndex := by
  intro reqs
  induction reqs with
  | nil => intro s rj tasks minE rj' tasks' m r _ hr; cases hr
  | cons r0 rest ih =>
    intro s rj tasks minE rj' tasks' m r h hr hdue hown
    rw [JobCtl.createLoop_cons] at h
    by_cases hskip : skipReq r0 s = true
    · rw [if_pos hskip] at h
      rcases List.mem_cons.mp hr with rfl | hr'
      · -- a due request is not skipped
        exfalso
        unfold skipReq at hskip
        unfold reqDueNow at hdue
        rcases hdue with hz | hn
        · simp [hz] at hskip
        · simp only [Bool.and_eq_true, decide_eq_true_eq] at hskip
          exact hn hskip.2
      · exact ih s rj tasks _ rj' tasks' m r h hr' hdue hown
    · rw [if_neg hskip] at h
      obtain ⟨hpc, hclk⟩ := syncCreateTask_static s jo rj tasks r0.index r0.retryIndex
      cases hsc : (syncCreateTask s jo rj tasks r0.index r0.retryIndex).2 with
      | none =>
        exfalso
        generalize syncCreateTask s jo rj tasks r0.index r0.retryIndex = res at h hsc
        obtain ⟨s1, o⟩ := res
        simp only at hsc
        subst hsc
        simp at h
      | some pr =>
        obtain ⟨rj1, tasks1⟩ := pr
        have h' : (createLoop jo rest (syncCreateTask s jo rj tasks r0.index r0.retryIndex).1 rj1 tasks1
            (nextMinE r0 minE)).2 = some (rj', tasks', m) := by
          generalize syncCreateTask s jo rj tasks r0.index r0.retryIndex = res at h hsc
          obtain ⟨s1, o⟩ := res
          simp only at hsc
          subst hsc
          exact h
        rcases List.mem_cons.mp hr with rfl | hr'
        · obtain ⟨t, ht, hn⟩ := syncCreateTask_named s jo rj tasks r.index r.retryIndex rj1 tasks1 hsc hown
          refine ⟨t, createLoop_extends jo rest _ rj1 tasks1 _ rj' tasks' m h' t ?_, hn⟩
          rw [ht]; exact List.mem_append_right _ (List.mem_singleton.mpr rfl)
        · exact ih _ rj1 tasks1 _ rj' tasks' m r h' hr' (by rw [hclk]; exact hdue) (by rw [hpc]; exact hown)

/-! ### names through the status refreshes -/

theorem updateTaskRefStatus_names (s : Sys) (key : String) (rj : Job) (tasks : List Task)
    (hok : ∀ t ∈ tasks, TaskOK t) : ∀ t ∈ tasks, t.name ∈ refNames (updateTaskRefStatus s key rj tasks).2 := by
  intro t ht
  unfold updateTaskRefStatus
  have hle := (syncJobStatusFromTaskRefs_spec s key (updateJobTaskRefs s.clock rj tasks)).2
  apply hle.names
  have hm := (Props.C11.generateTaskRefs_members s.clock rj.status.tasks tasks).2.1 t ht
  unfold refNames updateJobTaskRefs
  refine List.mem_map.mpr ⟨_, hm, ?_⟩
  rw [(getTaskRef_fields _ t).1]
  exact hok t ht

/-- what `sync` returns extends (in the sense of `JobLe`) what its task stage returned -/
theorem sync_from_stage (s : Sys) (jo : JobObj) (rj1 : Job) (h : (syncTasksStage s jo).2 = some rj1) :
    JobLe rj1 (sync s jo).2.1 := by
  rw [sync_eqK, h]
  unfold syncK1 syncK2 syncK3
  simp only
  have h2 := (syncJobStatusFromTaskRefs_spec (syncTasksStage s jo).1 (jobKey jo) rj1).2
  generalize syncJobStatusFromTaskRefs (syncTasksStage s jo).1 (jobKey jo) rj1 = u at h2 ⊢
  obtain ⟨s2, rj2⟩ := u
  simp only at h2 ⊢
  cases (handleTTL s2 jo rj2).2 with
  | false => exact h2
  | true =>
    simp only
    have h3 := (handleFinalizer_spec (handleTTL s2 jo rj2).1 jo (handleTTL s2 jo rj2).1 rj2 jo.finalizer).2
    cases hf : (handleFinalizer (handleTTL s2 jo rj2).1 jo rj2 jo.finalizer).2 with
    | none => exact h2
    | some pr =>
      obtain ⟨rj3, fin⟩ := pr
      exact h2.trans (h3 rj3 fin hf)

/-- a `sync` that reports success got a Job from its task stage -/
theorem sync_ok_stage (s : Sys) (jo : JobObj) (h : (sync s jo).2.2.2.1 = true) :
    ∃ rj1, (syncTasksStage s jo).2 = some rj1 := by
  rw [sync_eqK] at h
  cases hs : (syncTasksStage s jo).2 with
  | none => rw [hs] at h; simp [syncK1] at h
  | some rj1 => exact ⟨rj1, rfl⟩

/-! ### the final status write -/

theorem apiUpdateJobStatus_true (s : Sys) (c n : JobObj) (h : (apiUpdateJobStatus s c n).2 = true) :
    ∃ j', (apiUpdateJobStatus s c n).1.job = some j' ∧ j'.job.status = n.job.status := by
  obtain ⟨clock, rv, cfg, d, job, pods, jobEvs, podEvs, jobCache, podCache, q0, faults, delRun, calls⟩ := s
  unfold apiUpdateJobStatus nextFault popFault at h ⊢
  cases faults with
  | nil =>
    simp only at h ⊢
    have hff : isFailFault "" = false := by decide
    simp only [hff, Bool.false_eq_true, if_false] at h ⊢
    cases job with
    | none => simp at h
    | some cur =>
      simp only at h ⊢
      by_cases hrv : cur.rv ≠ c.rv
      · simp [hrv] at h
      · simp only [hrv, if_false] at h ⊢
        split
        · rename_i heq
          refine ⟨cur, rfl, ?_⟩
          have := congrArg (fun x => x.job.status) heq
          simpa using this.symm
        · exact ⟨_, rfl, rfl⟩
  | cons f rest =>
    simp only at h ⊢
    by_cases hff : isFailFault f = true
    · simp [hff] at h
    · simp only [hff, Bool.false_eq_true, if_false] at h ⊢
      cases job with
      | none => simp at h
      | some cur =>
        simp only at h ⊢
        by_cases hrv : cur.rv ≠ c.rv
        · simp [hrv] at h
        · simp only [hrv, if_false] at h ⊢
          split
          · rename_i heq
            refine ⟨cur, rfl, ?_⟩
            have := congrArg (fun x => x.job.status) heq
            simpa using this.symm
          · exact ⟨_, rfl, rfl⟩

/-- a `SyncOne` tail that returns ok after computing a status different from the cached one has
written exactly that status, and `sync` had reported success -/
theorem oneK_ok (jo : JobObj) (r : Job × Bool × Bool × Bool) (s1 : Sys) (h : (oneK jo r s1).2 = true) :
    r.2.2.1 = true ∧
    (r.1.status ≠ jo.job.status → ∃ j', (oneK jo r s1).1.job = some j' ∧ j'.job.status = r.1.status) := by
  unfold oneK at h ⊢
  simp only at h ⊢
  generalize (if (r.1.admissionError ≠ jo.job.admissionError || r.2.1 ≠ jo.finalizer) = true then
      apiUpdateJob s1 jo { jo with job := r.1, finalizer := r.2.1 } else (s1, true)) = w1 at h ⊢
  obtain ⟨s2, ok1⟩ := w1
  cases ok1 with
  | false => simp at h
  | true =>
    simp only [Bool.not_true, Bool.false_eq_true, if_false] at h ⊢
    by_cases hd : (decide (r.1.status ≠ jo.job.status) || r.2.2.2) = true
    · simp only [hd, if_true] at h ⊢
      cases hw : (apiUpdateJobStatus s2 (statusBase s2 jo (r.1.admissionError ≠ jo.job.admissionError || r.2.1 ≠ jo.finalizer))
          { jo with job := r.1 }).2 with
      | false => rw [hw] at h; simp at h
      | true =>
        rw [hw] at h
        simp only [Bool.not_true, Bool.false_eq_true, if_false] at h ⊢
        exact ⟨h, fun _ => apiUpdateJobStatus_true s2 _ { jo with job := r.1 } hw⟩
    · simp only [hd, Bool.false_eq_true, if_false, Bool.not_true] at h ⊢
      refine ⟨h, fun hne => ?_⟩
      exfalso
      apply hd
      simp [hne]


/-! ### the pass -/

/-- **A pass that returns ok has recorded every due creation request.**  Reachable state, Job cache
equal to the server, the cached Job started / not being deleted / allowed to create tasks / not
complete, `r` one of the requests `ComputeMissingIndexesForCreation` computes from the cached status,
due now, and a pod-cache entry under the request's task name — if any — controlled by this Job.
If `work` returns "ok", the authoritative status afterwards lists the request's task name. -/
theorem work_ok_records {ok : Sys → Action → Prop} {j0 : JobObj} {s : Sys} (hr : Reach ok j0 s) (jo : JobObj)
    (hc : s.jobCache = some jo) (hjob : s.job = some jo)
    (hst : isStarted jo.job = true) (hnd : isDeleted jo.job = false) (hcan : canCreateTask jo.job = true)
    (hncomp : (refreshedSummary s jo.job (tasks0 s jo jo.job)).complete = false)
    (reqs : List CreationRequest) (r : CreationRequest)
    (hreqs : computeMissingIndexesForCreation s.d jo.job (jo.job.indexes s.d) = some reqs) (hrm : r ∈ reqs)
    (hdue : reqDueNow s.clock r)
    (hown : ∀ p, findPod s.podCache (taskName jo.name r.index.hash r.retryIndex) = some p → p.ownerUid = some jo.uid)
    (hok : (JobCtl.work s).2 = "ok") :
    ∀ j', (JobCtl.work s).1.job = some j' → taskName jo.name r.index.hash r.retryIndex ∈ refNames j'.job := by
  intro j' hj'
  obtain ⟨k, q1, hg⟩ := work_not_idle (s := s) (by rw [hok]; decide)
  have hwj : (JobCtl.work s).1.job = (syncOne (passStart s q1)).1.job := by rw [work_some s k q1 hg]
  have hsok : (syncOne (passStart s q1)).2 = true := by
    rw [work_some s k q1 hg] at hok
    cases h : (syncOne (passStart s q1)).2 with
    | true => rfl
    | false => simp [h] at hok
  have hcp : (passStart s q1).jobCache = some jo := hc
  rw [syncOne_eqK (passStart s q1) jo hcp] at hsok hwj
  obtain ⟨hsync, hwritten⟩ := oneK_ok jo _ _ hsok
  obtain ⟨rjOut, hstage⟩ := sync_ok_stage (passStart s q1) jo hsync
  have hle := sync_from_stage (passStart s q1) jo rjOut hstage
  -- the task stage is `syncJobTasks`
  have hstage' : (syncJobTasks (passStart s q1) jo jo.job).2 = some rjOut := by
    unfold syncTasksStage at hstage
    have hcnd : (isStarted jo.job && !isDeleted jo.job) = true := by simp [hst, hnd]
    rw [if_pos hcnd] at hstage
    exact hstage
  obtain ⟨s1, rj1, tasks1, s2, rj2, s3, rj3, s4, rj4, s5, rj5, hct, _, _, _, _, hfinal, _⟩ :=
    syncJobTasks_success (passStart s q1) jo jo.job rjOut hstage'
  have hout : rjOut = (updateTaskRefStatus s5 (jobKey jo) rj5 tasks1).2 := by
    rw [hfinal] at hstage'
    simp only [Option.some.injEq] at hstage'
    exact hstage'.symm
  -- the tasks after the creation step are well-formed
  have htok : ∀ t ∈ tasks1, TaskOK t := by
    have hsp := (syncCreateTasks_spec (passStart s q1) jo (passStart s q1) (tasks0 (passStart s q1) jo jo.job) hst hnd
      (tasksForRefs_ok _ _ _) (CreatePhase.refl _)).2
    rw [hct] at hsp
    exact (hsp rj1 tasks1 rfl).2
  -- the creation loop ran and returned `tasks1`
  have hloop : ∃ rjL minE, (createLoop jo reqs (passStart s q1) jo.job (tasks0 (passStart s q1) jo jo.job) none).2 =
      some (rjL, tasks1, minE) := by
    rw [syncCreateTasks_eq] at hct
    have h1 : ¬ (!canCreateTask jo.job) = true := by simp [hcan]
    rw [if_neg h1] at hct
    have h2 : ¬ (refreshedSummary (passStart s q1) jo.job (tasks0 (passStart s q1) jo jo.job)).complete = true := by
      have : (refreshedSummary (passStart s q1) jo.job (tasks0 (passStart s q1) jo jo.job)).complete = false := hncomp
      rw [this]; simp
    rw [if_neg h2] at hct
    have h3 : computeMissingIndexesForCreation (passStart s q1).d jo.job (jo.job.indexes (passStart s q1).d) = some reqs :=
      hreqs
    rw [h3] at hct
    simp only at hct
    cases hl : (createLoop jo reqs (passStart s q1) jo.job (tasks0 (passStart s q1) jo jo.job) none).2 with
    | none => rw [hl] at hct; simp at hct
    | some pr =>
      obtain ⟨rjL, tasksL, minE⟩ := pr
      rw [hl] at hct
      simp only [Prod.mk.injEq, Option.some.injEq] at hct
      exact ⟨rjL, minE, by rw [hct.2.2]⟩
  obtain ⟨rjL, minE, hl⟩ := hloop
  obtain ⟨t, ht, hn⟩ := createLoop_covers jo reqs (passStart s q1) jo.job _ none rjL tasks1 minE r hl hrm hdue hown
  have hname : taskName jo.name r.index.hash r.retryIndex ∈ refNames (sync (passStart s q1) jo).2.1 := by
    apply hle.names
    rw [hout, ← hn]
    exact updateTaskRefStatus_names s5 (jobKey jo) rj5 tasks1 htok t ht
  by_cases hdiff : (sync (passStart s q1) jo).2.1.status = jo.job.status
  · -- nothing to write: the name was recorded already; the pass keeps recorded names
    have hin : taskName jo.name r.index.hash r.retryIndex ∈ refNames jo.job := by
      unfold refNames at hname ⊢
      rw [← hdiff]; exact hname
    exact (work_level_kept (base_of_reach hr) jo j' hjob hj').names _ hin
  · obtain ⟨j'', hj'', hst''⟩ := hwritten hdiff
    rw [hwj, hj''] at hj'
    cases hj'
    unfold refNames at hname ⊢
    rw [hst'']
    exact hname

end Furiko.Conv
