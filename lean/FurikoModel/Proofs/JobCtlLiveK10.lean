/-
Liveness of the job controller, kill part 10: what the statements of `Props/C12Live.lean` are phrased with —
the action filter of the runs (`killRunEnv`), the final states of a kill (`KilledFinal`) — and
`kstate_after_kill`: the invariant of the fair rounds of a single-task Job under arbitrary fault lists,
followed by the user's kill, gives the invariant `KState` of the kill rounds.  Core Lean only.
-/
import FurikoModel.Proofs.JobCtlLiveK9
import FurikoModel.Proofs.JobCtlLive36

set_option linter.unusedVariables false
set_option linter.unusedSimpArgs false

namespace Furiko.JobCtl.Live
open Furiko Furiko.JobCtl

/-- the actions of the runs of this file: those of the fair rounds under faults (controller passes, informer
deliveries, kubelet status writes, clock advances, replacements of the fault list), the user setting the
kill timestamp, and the kubelet finishing the termination of a pod that carries a deletion timestamp -/
def killRunEnv (_ : Sys) (a : Action) : Prop :=
  match a with
  | .work | .deliverJob | .deliverPod | .advance _ | .kubelet _ | .setFaults _ | .kill _ | .podGone _ => True
  | _ => False

instance (s : Sys) (a : Action) : Decidable (killRunEnv s a) := by cases a <;> unfold killRunEnv <;> infer_instance

theorem fair_in_killRunEnv : ∀ s a, fairEnv s a → killRunEnv s a := fun _ a h => by cases a <;> first | exact h | trivial
theorem killEnv_in_killRunEnv : ∀ s a, killEnv s a → killRunEnv s a := fun _ a h => by cases a <;> first | exact h | trivial

/-- what the final state of a kill looks like: the authoritative Job `Finished` with result `Killed`, every
pod left on the server finished, nothing in flight -/
structure KilledFinal (name : String) (s : Sys) : Prop where
  killed : ∃ jo f, s.job = some jo ∧ jo.name = name ∧ jo.job.status.condition.finished = some f ∧ f.result = .killed
  podsDone : ∀ p ∈ s.pods, p.pod.isFinished = true
  fresh : s.jobEvs = [] ∧ s.podEvs = [] ∧ s.jobCache = s.job ∧ s.podCache = s.pods ∧ s.faults = []

theorem killedFinal_of {jo : JobObj} {kt : Time} {F0 : Int} {s : Sys} (h : KState jo kt F0 s) (hd : KDone jo s) :
    KilledFinal jo.name s := by
  obtain ⟨f, hf, hr⟩ := hd.killed
  exact ⟨⟨jo, f, h.fresh.job, rfl, hf, hr⟩, hd.podsFin, h.fresh.jobEvs, h.fresh.podEvs,
    by rw [h.fresh.jobCache, h.fresh.job], h.fresh.podCache, h.fresh.faults⟩

/-- the state a single-task Job is in after any finite sequence of fair rounds under arbitrary fault lists,
once the user's kill timestamp has been delivered: a `KState` with the key ready -/
theorem kstate_after_kill (orc : String → Outcome) (clock : Int) (cfg : ExecConfig) (d : PIndex)
    (j0 : JobObj) (hwf : WF j0) (hspec : SimpleSpec j0.job) (hn : 1 ≤ j0.job.maxAttempts)
    (hunf : j0.job.status.condition.finished = none) (hdash : '-' ∉ d.hash.toList) (F0 : Int)
    (hF0 : F0 ≤ secs (clock / 1000000000)) (fss : List (List String))
    (hTF : ∀ pre suf, fss = pre ++ suf → pre ≠ [] →
      (roundsF orc pre (startState clock cfg d j0)).clock < F0 + getTTLAfterFinished j0.job cfg)
    (t : Time) (ht : t ≤ (roundsF orc fss (startState clock cfg d j0)).clock) (hFt : F0 ≤ t)
    (hTk : (roundsF orc fss (startState clock cfg d j0)).clock < F0 + getTTLAfterFinished j0.job cfg) :
    ∃ jo, jo.name = j0.name ∧ KState jo t F0 (killAt t (roundsF orc fss (startState clock cfg d j0))) ∧
      (killAt t (roundsF orc fss (startState clock cfg d j0))).q.queue ≠ [] ∧
      (killAt t (roundsF orc fss (startState clock cfg d j0))).pods = (roundsF orc fss (startState clock cfg d j0)).pods ∧
      (killAt t (roundsF orc fss (startState clock cfg d j0))).clock = (roundsF orc fss (startState clock cfg d j0)).clock := by
  obtain ⟨hcan, hbusy⟩ := init_canon fair_in_killRunEnv clock cfg d j0 hwf hspec hn hunf hdash F0 hF0
  have hsound : Sound killRunEnv j0 F0 orc (getTTLAfterFinished j0.job cfg) j0.name (startState clock cfg d j0) :=
    ⟨{ j0 with rv := 1 }, rfl, hcan, Or.inl hbusy, truth_start orc clock cfg d j0 hwf, rfl⟩
  obtain ⟨jo, hname, hcan', _, _, httl⟩ := roundsF_keep fair_in_killRunEnv (fun _ _ => trivial) orc
    (getTTLAfterFinished j0.job cfg) j0.name fss _ hsound hTF
  obtain ⟨hks, hq, hpods, hclock, _⟩ := kill_stage hcan' t ht hFt (by rw [httl]; exact hTk)
  exact ⟨killedObj jo t _, hname, hks, hq, hpods, hclock⟩

end Furiko.JobCtl.Live
