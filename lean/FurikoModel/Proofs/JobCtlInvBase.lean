/-
The base invariant of the job-controller transition system (all actions allowed):
* every Job version in the system (authoritative, cached, in flight) is a version of THE Job: same
  name, uid and template as the created one; resourceVersions are bounded by the server's counter;
* `rvId` (`rv_identifies_version`): a version the controller can see (cache / undelivered upsert)
  whose resourceVersion equals the authoritative one IS the authoritative object;
* pod names on the server are pairwise distinct (API name uniqueness);
* every pod controlled by the Job carries the name `taskName job.name hash retry` of the index and
  retry number written on it, the index being one of the Job's and `0 ≤ retry < maxAttempts`.
Core Lean only.
-/
import FurikoModel.Proofs.JobCtlInvWalk
import FurikoModel.Proofs.ParallelLemmas

set_option linter.unusedSimpArgs false
set_option linter.unusedVariables false

namespace Furiko.JobCtl
open Furiko Furiko.WQ Furiko.ParallelLemmas

/-! ### effects of the environment's operations -/

theorem setPodState_spec (s : Sys) (p : PodObj) :
    setPodState s p = s ∨ ∃ old, PodSet s (setPodState s p) old p := by
  unfold setPodState
  cases h : findPod s.pods p.pod.name with
  | none => exact Or.inl rfl
  | some old =>
    exact Or.inr ⟨old, ⟨⟨rfl, rfl, rfl, rfl, rfl⟩, rfl, rfl, rfl, h, rfl, rfl⟩⟩

theorem removePod_spec (s : Sys) (n : String) :
    removePod s n = s ∨ ∃ p, p.pod.name = n ∧ PodDel s (removePod s n) p := by
  unfold removePod
  cases h : findPod s.pods n with
  | none => exact Or.inl rfl
  | some p =>
    have hn := (findPod_some h).2
    refine Or.inr ⟨p, hn, ⟨⟨rfl, rfl, rfl, rfl, rfl⟩, rfl, rfl, rfl, by rw [hn]; exact h, ?_, rfl⟩⟩
    simp only [hn]

theorem createForeignPod_spec (s : Sys) (p : PodObj) :
    createForeignPod s p = s ∨ PodAdd s (createForeignPod s p) p := by
  unfold createForeignPod
  split
  · exact Or.inl rfl
  · rename_i h
    refine Or.inr ⟨⟨rfl, rfl, rfl, rfl, rfl⟩, rfl, rfl, rfl, ?_, rfl, rfl⟩
    cases hf : findPod s.pods p.pod.name <;> simp_all

theorem mutateJobObj_spec (s : Sys) (f : JobObj → JobObj) :
    (s.job = none ∧ mutateJobObj s f = s) ∨
    ∃ cur, s.job = some cur ∧ JobWrite s (mutateJobObj s f) { f cur with rv := s.rv + 1 } := by
  unfold mutateJobObj
  cases h : s.job with
  | none => exact Or.inl ⟨rfl, rfl⟩
  | some cur => exact Or.inr ⟨cur, rfl, ⟨⟨rfl, rfl, rfl, rfl, rfl⟩, rfl, rfl, rfl, rfl, rfl, rfl⟩⟩

theorem userDeleteJob_spec (s : Sys) :
    userDeleteJob s = s ∨
    (∃ cur, s.job = some cur ∧ cur.finalizer = true ∧ cur.job.deletionTimestamp = none ∧
      JobWrite s (userDeleteJob s)
        { cur with job := { cur.job with deletionTimestamp := some (nowT s) }, rv := s.rv + 1 }) ∨
    (∃ cur, s.job = some cur ∧ cur.finalizer = false ∧ JobGone s (userDeleteJob s)) := by
  unfold userDeleteJob
  cases h : s.job with
  | none => exact Or.inl rfl
  | some cur =>
    simp only
    by_cases hf : cur.finalizer = true
    · rw [if_pos hf]
      by_cases hd : cur.job.deletionTimestamp.isSome = true
      · rw [if_pos hd]; exact Or.inl rfl
      · rw [if_neg hd]
        refine Or.inr (Or.inl ⟨cur, rfl, hf, by cases h' : cur.job.deletionTimestamp <;> simp_all, ?_⟩)
        unfold mutateJobObj
        simp only [h]
        exact ⟨⟨rfl, rfl, rfl, rfl, rfl⟩, rfl, rfl, rfl, rfl, rfl, rfl⟩
    · rw [if_neg hf]
      exact Or.inr (Or.inr ⟨cur, rfl, by simpa using hf,
        ⟨⟨rfl, rfl, rfl, rfl, rfl⟩, rfl, rfl, Nat.le_refl _, rfl, ⟨cur, rfl⟩⟩⟩)

/-! ### the invariant -/

/-- the Job versions carried by undelivered upsert events -/
def upserts (l : List JEv) : List JobObj :=
  l.filterMap (fun e => match e with
    | .upsert j => some j
    | .delete _ => none)

/-- the Job versions the controller can (come to) see: the cached one and undelivered upserts -/
def seenVers (s : Sys) : List JobObj := s.jobCache.toList ++ upserts s.jobEvs

/-- `v` is a version of the Job that was created as `j0` -/
structure VerOK (j0 v : JobObj) : Prop where
  name : v.name = j0.name
  uid : v.uid = j0.uid
  template : v.job.template = j0.job.template

/-- The pod is named after the index and retry number it carries; the index is one of the Job's and
the retry number is within `0 .. maxAttempts-1`. -/
def PodNameOK (j0 : JobObj) (d : PIndex) (p : PodObj) : Prop :=
  ∃ idx retry, idx ∈ j0.job.indexes d ∧ 0 ≤ retry ∧ retry < j0.job.maxAttempts ∧
    p.pod.name = taskName j0.name idx.hash retry ∧ p.pod.parallelIndex = some idx ∧
    p.pod.retryIndex = some retry

structure Base (j0 : JobObj) (s : Sys) : Prop where
  jobOK : ∀ j, s.job = some j → VerOK j0 j ∧ j.rv ≤ s.rv
  seenOK : ∀ v ∈ seenVers s, VerOK j0 v ∧ v.rv ≤ s.rv
  rvId : ∀ j, s.job = some j → ∀ v ∈ seenVers s, v.rv = j.rv → v = j
  podsNodup : (podNames s.pods).Nodup
  podsOK : ∀ p ∈ s.pods, p.ownerUid = some j0.uid → PodNameOK j0 s.d p

theorem indexes_of_template {a b : Job} (h : a.template = b.template) (d : PIndex) : a.indexes d = b.indexes d := by
  unfold Job.indexes Job.parallelism; rw [h]

theorem maxAttempts_of_template {a b : Job} (h : a.template = b.template) : a.maxAttempts = b.maxAttempts := by
  unfold Job.maxAttempts; rw [h]

/-- objects unchanged, the set of visible versions does not grow -/
theorem Base.of_subset {j0 : JobObj} {s s' : Sys} (hb : Base j0 s) (hjob : s'.job = s.job) (hrv : s'.rv = s.rv)
    (hpods : s'.pods = s.pods) (hd : s'.d = s.d) (hsub : ∀ v ∈ seenVers s', v ∈ seenVers s) : Base j0 s' := by
  refine ⟨?_, ?_, ?_, ?_, ?_⟩
  · intro j hj; rw [hjob] at hj; rw [hrv]; exact hb.jobOK j hj
  · intro v hv; rw [hrv]; exact hb.seenOK v (hsub v hv)
  · intro j hj v hv; rw [hjob] at hj; exact hb.rvId j hj v (hsub v hv)
  · rw [hpods]; exact hb.podsNodup
  · rw [hpods, hd]; exact hb.podsOK

theorem seenVers_congr {s s' : Sys} (hc : s'.jobCache = s.jobCache) (he : s'.jobEvs = s.jobEvs) :
    seenVers s' = seenVers s := by
  unfold seenVers; rw [hc, he]

theorem Base.frame {j0 : JobObj} {s s' : Sys} (hb : Base j0 s) (hf : Frame s s') : Base j0 s' :=
  hb.of_subset hf.job hf.rv hf.pods hf.d (by rw [seenVers_congr hf.jobCache hf.jobEvs]; exact fun _ h => h)

theorem upserts_append (a b : List JEv) : upserts (a ++ b) = upserts a ++ upserts b := by
  unfold upserts; rw [List.filterMap_append]

theorem Base.jobWrite {j0 : JobObj} {s s' : Sys} {nj : JobObj} (hb : Base j0 s) (hw : JobWrite s s' nj)
    (hok : VerOK j0 nj) : Base j0 s' := by
  have hseen : seenVers s' = seenVers s ++ [nj] := by
    unfold seenVers
    rw [hw.static.jobCache, hw.jobEvs, upserts_append, List.append_assoc]
    rfl
  refine ⟨?_, ?_, ?_, ?_, ?_⟩
  · intro j hj
    rw [hw.job] at hj; cases hj
    exact ⟨hok, by rw [hw.nrv, hw.rv]; exact Nat.le_refl _⟩
  · intro v hv
    rw [hseen] at hv
    rcases List.mem_append.mp hv with h | h
    · have := hb.seenOK v h
      exact ⟨this.1, by rw [hw.rv]; exact Nat.le_succ_of_le this.2⟩
    · simp only [List.mem_singleton] at h; subst h
      exact ⟨hok, by rw [hw.nrv, hw.rv]; exact Nat.le_refl _⟩
  · intro j hj v hv hrv
    rw [hw.job] at hj; cases hj
    rw [hseen] at hv
    rcases List.mem_append.mp hv with h | h
    · have := (hb.seenOK v h).2
      rw [hw.nrv] at hrv; omega
    · simpa using h
  · rw [hw.pods]; exact hb.podsNodup
  · rw [hw.pods, hw.static.d]; exact hb.podsOK

theorem Base.jobGone {j0 : JobObj} {s s' : Sys} (hb : Base j0 s) (hg : JobGone s s') : Base j0 s' := by
  have hseen : seenVers s' = seenVers s := by
    obtain ⟨x, hx⟩ := hg.jobEvs
    unfold seenVers
    rw [hg.static.jobCache, hx, upserts_append]
    simp [upserts]
  refine ⟨?_, ?_, ?_, ?_, ?_⟩
  · intro j hj; rw [hg.job] at hj; cases hj
  · intro v hv; rw [hseen] at hv
    have := hb.seenOK v hv
    exact ⟨this.1, Nat.le_trans this.2 hg.rv⟩
  · intro j hj; rw [hg.job] at hj; cases hj
  · rw [hg.pods]; exact hb.podsNodup
  · rw [hg.pods, hg.static.d]; exact hb.podsOK

theorem Base.podChange {j0 : JobObj} {s s' : Sys} (hb : Base j0 s) (hst : Static s s') (hjob : s'.job = s.job)
    (hevs : s'.jobEvs = s.jobEvs) (hrv : s.rv ≤ s'.rv) (hnd : (podNames s'.pods).Nodup)
    (hpods : ∀ p ∈ s'.pods, p.ownerUid = some j0.uid → PodNameOK j0 s.d p) : Base j0 s' := by
  have hseen := seenVers_congr hst.jobCache hevs
  refine ⟨?_, ?_, ?_, hnd, ?_⟩
  · intro j hj; rw [hjob] at hj
    have := hb.jobOK j hj
    exact ⟨this.1, Nat.le_trans this.2 hrv⟩
  · intro v hv; rw [hseen] at hv
    have := hb.seenOK v hv
    exact ⟨this.1, Nat.le_trans this.2 hrv⟩
  · intro j hj v hv; rw [hjob] at hj; rw [hseen] at hv; exact hb.rvId j hj v hv
  · rw [hst.d]; exact hpods

theorem Base.podAdd {j0 : JobObj} {s s' : Sys} {p : PodObj} (hb : Base j0 s) (ha : PodAdd s s' p)
    (hp : p.ownerUid = some j0.uid → PodNameOK j0 s.d p) : Base j0 s' := by
  refine hb.podChange ha.static ha.job ha.jobEvs (by rw [ha.rv]; exact Nat.le_succ _) ?_ ?_
  · rw [ha.pods]; exact nodup_append_pod hb.podsNodup ha.fresh
  · intro q hq
    rw [ha.pods] at hq
    rcases List.mem_append.mp hq with h | h
    · exact hb.podsOK q h
    · simp only [List.mem_singleton] at h; subst h; exact hp

theorem Base.podSet {j0 : JobObj} {s s' : Sys} {old p : PodObj} (hb : Base j0 s) (hs : PodSet s s' old p)
    (hp : p.ownerUid = some j0.uid → PodNameOK j0 s.d p) : Base j0 s' := by
  refine hb.podChange hs.static hs.job hs.jobEvs (by rw [hs.rv]; exact Nat.le_succ _) ?_ ?_
  · rw [hs.pods]; exact nodup_setPod p hb.podsNodup
  · intro q hq
    rw [hs.pods] at hq
    rcases mem_setPod hq with h | h
    · subst h; exact hp
    · exact hb.podsOK q h

theorem Base.podDel {j0 : JobObj} {s s' : Sys} {p : PodObj} (hb : Base j0 s) (hd : PodDel s s' p) : Base j0 s' := by
  refine hb.podChange hd.static hd.job hd.jobEvs (by rw [hd.rv]; exact Nat.le_refl _) ?_ ?_
  · rw [hd.pods]; exact nodup_delPod _ hb.podsNodup
  · intro q hq
    rw [hd.pods] at hq
    exact hb.podsOK q (mem_delPod hq).1

/-- identity fields of a pod are what `PodNameOK` reads -/
theorem PodNameOK.transfer {j0 : JobObj} {d : PIndex} {p q : PodObj} (h : PodNameOK j0 d p)
    (hn : q.pod.name = p.pod.name) (hi : q.pod.parallelIndex = p.pod.parallelIndex)
    (hr : q.pod.retryIndex = p.pod.retryIndex) : PodNameOK j0 d q := by
  obtain ⟨idx, retry, h1, h2, h3, h4, h5, h6⟩ := h
  exact ⟨idx, retry, h1, h2, h3, hn.trans h4, hi.trans h5, hr.trans h6⟩

/-! ### what a creation request says -/

theorem nextRetryIndex_nonneg (d : PIndex) (tasks : List TaskRef) (h : String) : 0 ≤ nextRetryIndex d tasks h := by
  rw [nextRetryIndex_eq_maxSucc]
  exact (foldl_maxSucc_ge _ 0).1

theorem createReq_facts {d : PIndex} {jo : JobObj} {idx : PIndex} {retry : Int} (h : CreateReq d jo idx retry) :
    idx ∈ jo.job.indexes d ∧ retry = nextRetryIndex d jo.job.status.tasks idx.hash ∧ 0 ≤ retry ∧
    retry < jo.job.maxAttempts := by
  obtain ⟨_, _, _, reqs, e, hreqs, hmem⟩ := h
  unfold computeMissingIndexesForCreation at hreqs
  split at hreqs
  · cases hreqs
  · cases hreqs
    obtain ⟨k, hk, _, hm, hr⟩ := (mem_missingFrom d jo.job _ _ 0 _).mp hmem
    simp only [mkReq, CreationRequest.mk.injEq] at hr
    obtain ⟨rfl, rfl, _⟩ := hr
    exact ⟨List.getElem_mem hk, rfl, nextRetryIndex_nonneg _ _ _, hm⟩

/-! ### preservation by the micro-steps of a pass -/

theorem mem_seenVers_cache {s : Sys} {jo : JobObj} (h : s.jobCache = some jo) : jo ∈ seenVers s := by
  unfold seenVers; rw [h]; simp

theorem Base.micro {j0 : JobObj} {jo : JobObj} {sp s s' : Sys} (hb : Base j0 s) (hc : s.jobCache = some jo)
    (hm : Micro jo sp s s') : Base j0 s' := by
  have hjo := (hb.seenOK jo (mem_seenVers_cache hc)).1
  cases hm with
  | frame hf => exact hb.frame hf
  | create idx retry hreq _ =>
    rcases apiCreatePod_spec s jo idx retry with h | h
    · exact hb.frame h.1
    · refine hb.podAdd h.1 ?_
      intro _
      obtain ⟨h1, _, h3, h4⟩ := createReq_facts hreq
      refine ⟨idx, retry, ?_, h3, ?_, ?_, rfl, rfl⟩
      · rw [← indexes_of_template hjo.template]; exact h1
      · rw [← maxAttempts_of_template hjo.template]; exact h4
      · show taskName jo.name idx.hash retry = _; rw [hjo.name]
  | delPod name force =>
    rcases apiDeletePod_spec s name force with h | ⟨p, _, h, _⟩ | ⟨p, _, _, _, h⟩
    · exact hb.frame h
    · exact hb.podDel h
    · refine hb.podSet h ?_
      intro ho
      exact (hb.podsOK p (findPod_some h.found).1 ho).transfer rfl rfl rfl
  | delJob =>
    rcases apiDeleteJob_spec s jo with h | ⟨c, hc', _, _, h⟩ | ⟨c, _, _, h⟩
    · exact hb.frame h
    · have := (hb.jobOK c hc').1
      exact hb.jobWrite h ⟨this.name, this.uid, this.template⟩
    · exact hb.jobGone h
  | updJob _ =>
    rcases apiUpdateJob_spec s jo { jo with job := (sync sp jo).2.1, finalizer := (sync sp jo).2.2.1 } with
      h | ⟨c, hc', _, h | h⟩
    · exact hb.frame h
    · have := (hb.jobOK c hc').1
      refine hb.jobWrite h.1 ⟨this.name, this.uid, ?_⟩
      show (sync sp jo).2.1.template = _
      rw [(sync_spec sp jo sp (CreatePhase.refl _)).2.template]; exact hjo.template
    · exact hb.jobGone h.1
  | updStatus =>
    rcases apiUpdateJobStatus_spec s jo { jo with job := (sync sp jo).2.1 } with h | ⟨c, hc', _, h⟩
    · exact hb.frame h
    · have := (hb.jobOK c hc').1
      exact hb.jobWrite h ⟨this.name, this.uid, this.template⟩
  | updStatusOn s1 _ _ _ =>
    rcases apiUpdateJobStatus_spec s { jo with rv := updatedRv s jo } { jo with job := (sync sp jo).2.1 } with
      h | ⟨c, hc', _, h⟩
    · exact hb.frame h
    · have := (hb.jobOK c hc').1
      exact hb.jobWrite h ⟨this.name, this.uid, this.template⟩

theorem Base.micros {j0 : JobObj} {jo : JobObj} {sp s s' : Sys} (hb : Base j0 s) (hc : s.jobCache = some jo)
    (hm : Micros jo sp s s') : Base j0 s' ∧ s'.jobCache = some jo := by
  induction hm with
  | refl => exact ⟨hb, hc⟩
  | tail _ hm ih => exact ⟨ih.1.micro ih.2 hm, hm.static.jobCache.trans ih.2⟩

/-- in the state the metadata write of a pass is issued in, the cached Job is the stored one as soon
as their resourceVersions agree (`rvId` carried through the micro-steps of `sync`) -/
theorem cachedIsCur_sync {j0 jo : JobObj} {sp : Sys} (hb : Base j0 sp) (hc : sp.jobCache = some jo) :
    CachedIsCur jo (sync sp jo).1 := by
  have hm := (sync_spec sp jo sp (CreatePhase.refl _)).1
  have hb1 := hb.micros hc hm
  intro c hcj hrv
  exact (hb1.1.rvId c hcj jo (mem_seenVers_cache hb1.2) hrv.symm).symm

/-! ### preservation by every action -/

theorem upserts_cons_upsert (j : JobObj) (l : List JEv) : upserts (.upsert j :: l) = j :: upserts l := rfl
theorem upserts_cons_delete (j : JobObj) (l : List JEv) : upserts (.delete j :: l) = upserts l := rfl

theorem seenVers_deliverJob (s : Sys) : ∀ v ∈ seenVers (deliverJob s), v ∈ seenVers s := by
  intro v hv
  unfold deliverJob at hv
  cases he : s.jobEvs with
  | nil => simp only [he] at hv; exact hv
  | cons e rest =>
    simp only [he] at hv
    cases e with
    | upsert j =>
      simp only at hv
      unfold seenVers at hv ⊢
      rw [he, upserts_cons_upsert]
      simp only [Option.toList_some, List.singleton_append, List.mem_cons] at hv
      rcases hv with rfl | h
      · exact List.mem_append_right _ List.mem_cons_self
      · exact List.mem_append_right _ (List.mem_cons_of_mem _ h)
    | delete j =>
      simp only at hv
      unfold seenVers at hv ⊢
      rw [he, upserts_cons_delete]
      cases hcache : s.jobCache with
      | none => simp only [hcache] at hv ⊢; exact hv
      | some old =>
        simp only [hcache] at hv ⊢
        exact List.mem_append_right _ (by simpa using hv)

theorem deliverJob_fields (s : Sys) : (deliverJob s).job = s.job ∧ (deliverJob s).rv = s.rv ∧
    (deliverJob s).pods = s.pods ∧ (deliverJob s).d = s.d ∧ (deliverJob s).podEvs = s.podEvs ∧
    (deliverJob s).podCache = s.podCache ∧ (deliverJob s).clock = s.clock ∧ (deliverJob s).cfg = s.cfg := by
  unfold deliverJob
  split
  · exact ⟨rfl, rfl, rfl, rfl, rfl, rfl, rfl, rfl⟩
  · exact ⟨rfl, rfl, rfl, rfl, rfl, rfl, rfl, rfl⟩
  · split <;> exact ⟨rfl, rfl, rfl, rfl, rfl, rfl, rfl, rfl⟩

/-- `podNotify` only touches the queue -/
theorem podNotify_frame (s : Sys) (p : PodObj) : Frame s (podNotify s p) := by
  unfold podNotify
  split
  · split
    · exact ⟨⟨rfl, rfl, rfl, rfl, rfl⟩, rfl, rfl, rfl, rfl, rfl⟩
    · exact Frame.refl s
  · exact Frame.refl s

theorem deliverPod_fields (s : Sys) : (deliverPod s).job = s.job ∧ (deliverPod s).rv = s.rv ∧
    (deliverPod s).pods = s.pods ∧ (deliverPod s).d = s.d ∧ (deliverPod s).jobEvs = s.jobEvs ∧
    (deliverPod s).jobCache = s.jobCache ∧ (deliverPod s).clock = s.clock ∧ (deliverPod s).cfg = s.cfg := by
  unfold deliverPod
  cases he : s.podEvs with
  | nil => exact ⟨rfl, rfl, rfl, rfl, rfl, rfl, rfl, rfl⟩
  | cons e rest =>
    cases e with
    | upsert p =>
      simp only
      have := podNotify_frame { s with podEvs := rest, podCache := setPod s.podCache p } p
      exact ⟨this.job, this.rv, this.pods, this.d, this.jobEvs, this.jobCache, this.clock, this.cfg⟩
    | delete p =>
      simp only
      cases hf : findPod s.podCache p.pod.name with
      | none => exact ⟨rfl, rfl, rfl, rfl, rfl, rfl, rfl, rfl⟩
      | some old =>
        simp only
        have := podNotify_frame { s with podEvs := rest, podCache := delPod s.podCache p.pod.name } old
        exact ⟨this.job, this.rv, this.pods, this.d, this.jobEvs, this.jobCache, this.clock, this.cfg⟩

theorem foldl_podNotify_frame : ∀ (l : List PodObj) (a : Sys), Frame a (l.foldl podNotify a) := by
  intro l
  induction l with
  | nil => intro a; exact Frame.refl a
  | cons p rest ih => intro a; exact (podNotify_frame a p).trans (ih _)

theorem resync_frame (s : Sys) : Frame s (resync s) := by
  unfold resync
  cases hj : s.jobCache with
  | none => simp only; exact foldl_podNotify_frame _ s
  | some j =>
    simp only
    refine Frame.trans (b := _) ?_ (foldl_podNotify_frame _ _)
    exact ⟨⟨rfl, rfl, rfl, hj.symm, rfl⟩, rfl, rfl, rfl, rfl, rfl⟩

theorem Base.afterRestart {j0 : JobObj} {s : Sys} (hb : Base j0 s) : Base j0 (restart s) := by
  have hf : (restart s).job = s.job ∧ (restart s).rv = s.rv ∧ (restart s).pods = s.pods ∧
      (restart s).d = s.d ∧ seenVers (restart s) = s.job.toList := by
    unfold restart
    cases hj : s.job <;> simp [seenVers, upserts, hj]
  obtain ⟨h1, h2, h3, h4, h5⟩ := hf
  refine ⟨?_, ?_, ?_, ?_, ?_⟩
  · intro j hj; rw [h1] at hj; rw [h2]; exact hb.jobOK j hj
  · intro v hv; rw [h5] at hv; rw [h2]
    cases hj : s.job with
    | none => simp [hj] at hv
    | some j => simp only [hj, Option.toList_some, List.mem_singleton] at hv; subst hv; exact hb.jobOK v hj
  · intro j hj v hv _
    rw [h1] at hj; rw [h5, hj] at hv
    simpa using hv
  · rw [h3]; exact hb.podsNodup
  · rw [h3, h4]; exact hb.podsOK

theorem Base.init {j0 : JobObj} (clock : Int) (cfg : ExecConfig) (d : PIndex) : Base j0 (initSys clock cfg d j0) := by
  unfold initSys userCreateJob
  refine ⟨?_, ?_, ?_, ?_, ?_⟩
  · intro j hj
    simp only [Option.some.injEq] at hj; subst hj
    exact ⟨⟨rfl, rfl, rfl⟩, Nat.le_refl _⟩
  · intro v hv
    simp only [seenVers, upserts, Option.toList_none, List.nil_append, List.filterMap_cons,
      List.filterMap_nil, List.mem_singleton] at hv
    subst hv
    exact ⟨⟨rfl, rfl, rfl⟩, Nat.le_refl _⟩
  · intro j hj v hv _
    simp only [Option.some.injEq] at hj; subst hj
    simpa [seenVers, upserts] using hv
  · simp [podNames]
  · intro p hp; cases hp

theorem Base.step {j0 : JobObj} {s : Sys} (hb : Base j0 s) (a : Action) (hal : Allowed j0 s a) :
    Base j0 (step s a) := by
  cases a with
  | setFaults fs => exact hb.of_subset rfl rfl rfl rfl (fun _ h => h)
  | work =>
    show Base j0 (work s).1
    cases hc : s.jobCache with
    | none => exact hb.frame (work_frame s hc)
    | some jo =>
      obtain ⟨sp, hf, hm⟩ := work_micros s jo hc
      exact ((hb.frame hf).micros (hf.jobCache.trans hc) hm).1
  | deliverJob =>
    show Base j0 (deliverJob s)
    have := deliverJob_fields s
    exact hb.of_subset this.1 this.2.1 this.2.2.1 this.2.2.2.1 (seenVers_deliverJob s)
  | deliverPod =>
    show Base j0 (deliverPod s)
    have := deliverPod_fields s
    exact hb.of_subset this.1 this.2.1 this.2.2.1 this.2.2.2.1
      (by rw [seenVers_congr this.2.2.2.2.2.1 this.2.2.2.2.1]; exact fun _ h => h)
  | resync => exact hb.frame (s' := resync s) (resync_frame s)
  | restart => exact hb.afterRestart
  | advance d => exact hb.of_subset rfl rfl rfl rfl (fun _ h => h)
  | kubelet p =>
    show Base j0 (setPodState s p)
    rcases setPodState_spec s p with h | ⟨old, h⟩
    · rw [h]; exact hb
    · have hk : KubeletOK old p := by
        have := (optSat_iff _ _).mp hal
        obtain ⟨o, ho, hk⟩ := this
        rw [h.found] at ho; cases ho; exact hk
      refine hb.podSet h ?_
      intro ho
      obtain ⟨k1, _, _, k4, _, _, k7, k8, _, _⟩ := hk
      exact (hb.podsOK old (findPod_some h.found).1 (k1 ▸ ho)).transfer k4 k8 k7
  | podGone n =>
    show Base j0 (removePod s n)
    rcases removePod_spec s n with h | ⟨p, _, h⟩
    · rw [h]; exact hb
    · exact hb.podDel h
  | externalDelete n =>
    show Base j0 (removePod s n)
    rcases removePod_spec s n with h | ⟨p, _, h⟩
    · rw [h]; exact hb
    · exact hb.podDel h
  | kill t =>
    show Base j0 (mutateJobObj s _)
    rcases mutateJobObj_spec s (fun j => { j with job := { j.job with killTimestamp := some t } }) with h | ⟨c, hc, h⟩
    · rw [h.2]; exact hb
    · have := (hb.jobOK c hc).1
      exact hb.jobWrite h ⟨this.name, this.uid, this.template⟩
  | userDelete =>
    show Base j0 (userDeleteJob s)
    rcases userDeleteJob_spec s with h | ⟨c, hc, _, _, h⟩ | ⟨c, _, _, h⟩
    · rw [h]; exact hb
    · have := (hb.jobOK c hc).1
      exact hb.jobWrite h ⟨this.name, this.uid, this.template⟩
    · exact hb.jobGone h
  | createForeign p =>
    show Base j0 (createForeignPod s p)
    rcases createForeignPod_spec s p with h | h
    · rw [h]; exact hb
    · exact hb.podAdd h (fun ho => absurd ho hal)

theorem base_of_reach {ok : Sys → Action → Prop} {j0 : JobObj} {s : Sys} (hr : Reach ok j0 s) : Base j0 s := by
  induction hr with
  | init c cfg d _ => exact Base.init c cfg d
  | step a _ _ hal ih => exact ih.step a hal

end Furiko.JobCtl
