/-
Helpers for Props/C20Inst, part 2: one pass of the job controller (`Model/JobCtl.lean`) is
* QUEUE-OBLIVIOUS: what it reads, the API calls it issues and what it returns do not depend on the
  contents of the work queue; its only effect on the queue is a list of deferred adds
  (`Retry.QOp.addAfter`) — which is exactly the `SyncResult.during` of the retry-loop model
  `Model/Retry.lean`;
* CALL-ACCOUNTED (`Kept`): the call log only grows, a pod that existed before still exists (by name)
  afterwards unless a logged, successful, forced pod delete names it, and a pass that logged no call
  changed nothing but the work queue.
Both are proved by one walk through `Reconciler.sync` with the combinators `Good.bind` / `Good.ite` /
`Good.optionCases`.  Core Lean only.
-/
import FurikoModel.Proofs.JobCtlInvWalk
import FurikoModel.Proofs.JobCtlPlanSync
import FurikoModel.Model.Retry

set_option linter.unusedVariables false
set_option linter.unusedSimpArgs false

namespace Furiko.Conv
open Furiko Furiko.JobCtl Furiko.WQ Furiko.Retry

/-- the state with another work queue -/
def setQ (s : Sys) (q : WQ) : Sys := { s with q := q }

theorem setQ_self (s : Sys) : setQ s s.q = s := rfl
theorem setQ_setQ (s : Sys) (a b : WQ) : setQ (setQ s a) b = setQ s b := rfl
theorem setQ_q (s : Sys) (q : WQ) : (setQ s q).q = q := rfl

/-- the logged call `c` is a successful forced delete of the pod named `n` -/
def ForceDelOk (c : Call) (n : String) : Prop :=
  c.verb = "delete" ∧ c.res = "pods" ∧ c.name = n ∧ c.out = "ok" ∧ c.force = true

/-- `s'` is `s` after controller code that logged exactly `l` -/
structure Kept (s s' : Sys) (l : List Call) : Prop where
  calls : s'.calls = s.calls ++ l
  clock : s'.clock = s.clock
  pods : ∀ n ∈ podNames s.pods, n ∈ podNames s'.pods ∨ ∃ c ∈ l, ForceDelOk c n
  nocall : l = [] → s' = setQ s s'.q

theorem Kept.refl (s : Sys) : Kept s s [] := ⟨by simp, rfl, fun n h => Or.inl h, fun _ => rfl⟩

theorem Kept.trans {a b c : Sys} {l1 l2 : List Call} (h1 : Kept a b l1) (h2 : Kept b c l2) : Kept a c (l1 ++ l2) := by
  refine ⟨by rw [h2.calls, h1.calls, List.append_assoc], h2.clock.trans h1.clock, ?_, ?_⟩
  · intro n hn
    rcases h1.pods n hn with h | ⟨x, hx, hd⟩
    · rcases h2.pods n h with h' | ⟨x, hx, hd⟩
      · exact Or.inl h'
      · exact Or.inr ⟨x, List.mem_append_right _ hx, hd⟩
    · exact Or.inr ⟨x, List.mem_append_left _ hx, hd⟩
  · intro hl
    have e1 : l1 = [] := (List.append_eq_nil_iff.mp hl).1
    have e2 : l2 = [] := (List.append_eq_nil_iff.mp hl).2
    have hb := h1.nocall e1
    have hc := h2.nocall e2
    rw [hc, hb]; rfl

/-- only the queue changed -/
theorem Kept.of_setQ (s : Sys) (q : WQ) : Kept s (setQ s q) [] :=
  ⟨by simp [setQ], rfl, fun n h => Or.inl h, fun _ => rfl⟩

/-- a single call that keeps every pod name -/
theorem Kept.single {s s' : Sys} {c : Call} (hc : s'.calls = s.calls ++ [c]) (hk : s'.clock = s.clock)
    (hp : ∀ n ∈ podNames s.pods, n ∈ podNames s'.pods) : Kept s s' [c] :=
  ⟨hc, hk, fun n h => Or.inl (hp n h), fun h => by cases h⟩

/-- `f` at `s`: call-accounted and queue-oblivious (the deferred adds are `ops`) -/
structure Good {α : Type} (f : Sys → Sys × α) (s : Sys) : Prop where
  kept : ∃ l, Kept s (f s).1 l
  obl : ∃ ops : List QOp, ∀ q', f (setQ s q') = (setQ (f s).1 (applyOps q' s.clock ops), (f s).2)

theorem applyOps_append (q : WQ) (now : Int) (a b : List QOp) :
    applyOps q now (a ++ b) = applyOps (applyOps q now a) now b := by
  unfold applyOps; rw [List.foldl_append]

theorem applyOps_nil (q : WQ) (now : Int) : applyOps q now [] = q := rfl

/-- the queue after the computation is the queue before plus the deferred adds -/
theorem Good.q_eq {α : Type} {f : Sys → Sys × α} {s : Sys} (h : Good f s) :
    ∃ ops : List QOp, (f s).1.q = applyOps s.q s.clock ops ∧
      ∀ q', f (setQ s q') = (setQ (f s).1 (applyOps q' s.clock ops), (f s).2) := by
  obtain ⟨ops, ho⟩ := h.obl
  refine ⟨ops, ?_, ho⟩
  have := ho s.q
  rw [setQ_self] at this
  have h2 := congrArg (fun r => r.1.q) this
  simpa [setQ] using h2

theorem Good.pure {α : Type} (a : Sys → α) (s : Sys) (ha : ∀ q', a (setQ s q') = a s) :
    Good (fun t => (t, a t)) s :=
  ⟨⟨[], Kept.refl s⟩, ⟨[], fun q' => by simp only [applyOps_nil, ha]⟩⟩

/-- functions that agree on `s` with any queue are `Good` together -/
theorem Good.of_eq {α : Type} {f g : Sys → Sys × α} {s : Sys} (h : ∀ q', f (setQ s q') = g (setQ s q'))
    (hg : Good g s) : Good f s := by
  have hs : f s = g s := by have := h s.q; rwa [setQ_self] at this
  obtain ⟨⟨l, hk⟩, ⟨ops, ho⟩⟩ := hg
  exact ⟨⟨l, by rw [hs]; exact hk⟩, ⟨ops, fun q' => by rw [h q', hs]; exact ho q'⟩⟩

/-- functions that agree everywhere are `Good` together -/
theorem Good.of_eq_all {α : Type} {f g : Sys → Sys × α} {s : Sys} (h : ∀ t, f t = g t)
    (hg : Good g s) : Good f s := Good.of_eq (fun q' => h _) hg

/-- sequential composition -/
theorem Good.bind {α β : Type} {g : Sys → Sys × α} {h : α → Sys → Sys × β} {s : Sys}
    (hg : Good g s) (hh : Good (h (g s).2) (g s).1) : Good (fun t => h (g t).2 (g t).1) s := by
  obtain ⟨⟨l1, k1⟩, ⟨ops1, o1⟩⟩ := hg
  obtain ⟨⟨l2, k2⟩, ⟨ops2, o2⟩⟩ := hh
  refine ⟨⟨l1 ++ l2, k1.trans k2⟩, ⟨ops1 ++ ops2, fun q' => ?_⟩⟩
  simp only [o1 q']
  rw [o2, k1.clock, applyOps_append]

/-- post-processing of the result by a function that does not look at the queue -/
theorem Good.map {α β : Type} {g : Sys → Sys × α} {s : Sys} (hg : Good g s) (m : Sys → α → β)
    (hm : ∀ t q' a, m (setQ t q') a = m t a) : Good (fun t => ((g t).1, m (g t).1 (g t).2)) s := by
  obtain ⟨⟨l1, k1⟩, ⟨ops1, o1⟩⟩ := hg
  refine ⟨⟨l1, k1⟩, ⟨ops1, fun q' => ?_⟩⟩
  simp only [o1 q', hm]

/-- a branch on a condition that does not look at the queue -/
theorem Good.ite {α : Type} {c : Sys → Prop} [DecidablePred c] {A B : Sys → Sys × α} {s : Sys}
    (hc : ∀ q', c (setQ s q') ↔ c s) (hA : c s → Good A s) (hB : ¬ c s → Good B s) :
    Good (fun t => if c t then A t else B t) s := by
  by_cases h : c s
  · exact Good.of_eq (fun q' => by simp only [(hc q').mpr h, if_true]) (hA h)
  · exact Good.of_eq (fun q' => by
      have : ¬ c (setQ s q') := fun hx => h ((hc q').mp hx)
      simp only [this, Bool.false_eq_true, ↓reduceIte, if_false]) (hB h)

/-- a case split on an optional value that does not depend on the queue -/
theorem Good.optionCases {α γ : Type} {o : Sys → Option γ} {A : Sys → Sys × α} {B : γ → Sys → Sys × α} {s : Sys}
    (ho : ∀ q', o (setQ s q') = o s) (hA : o s = none → Good A s) (hB : ∀ x, o s = some x → Good (B x) s) :
    Good (fun t => match o t with | none => A t | some x => B x t) s := by
  cases h : o s with
  | none => exact Good.of_eq (fun q' => by simp only [ho q', h]) (hA h)
  | some x => exact Good.of_eq (fun q' => by simp only [ho q', h]) (hB x h)

/-! ### leaves -/

theorem enqueueAfter_setQ (s : Sys) (q' : WQ) (k : String) (t : Int) :
    enqueueAfter (setQ s q') k t = setQ (enqueueAfter s k t) (applyOps q' s.clock [.addAfter k t]) := rfl

theorem enqueueAfter_good {α : Type} (k : String) (t : Int) (a : α) (s : Sys) :
    Good (fun u => (enqueueAfter u k t, a)) s :=
  ⟨⟨[], Kept.of_setQ s _⟩, ⟨[.addAfter k t], fun q' => rfl⟩⟩

theorem apiUpdateJob_setQ (s : Sys) (q : WQ) (c n : JobObj) :
    apiUpdateJob (setQ s q) c n = (setQ (apiUpdateJob s c n).1 q, (apiUpdateJob s c n).2) := by
  obtain ⟨clock, rv, cfg, d, job, pods, jobEvs, podEvs, jobCache, podCache, q0, faults, delRun, calls⟩ := s
  unfold apiUpdateJob nextFault popFault setQ log
  cases faults <;> simp only <;> (repeat' split) <;> first | rfl | simp_all

theorem apiUpdateJobStatus_setQ (s : Sys) (q : WQ) (c n : JobObj) :
    apiUpdateJobStatus (setQ s q) c n = (setQ (apiUpdateJobStatus s c n).1 q, (apiUpdateJobStatus s c n).2) := by
  obtain ⟨clock, rv, cfg, d, job, pods, jobEvs, podEvs, jobCache, podCache, q0, faults, delRun, calls⟩ := s
  unfold apiUpdateJobStatus nextFault popFault setQ log
  cases faults <;> simp only <;> (repeat' split) <;> first | rfl | simp_all

theorem apiDeleteJob_setQ (s : Sys) (q : WQ) (c : JobObj) :
    apiDeleteJob (setQ s q) c = (setQ (apiDeleteJob s c).1 q, (apiDeleteJob s c).2) := by
  obtain ⟨clock, rv, cfg, d, job, pods, jobEvs, podEvs, jobCache, podCache, q0, faults, delRun, calls⟩ := s
  unfold apiDeleteJob nextFault popFault setQ log nowT nowSec
  cases faults <;> simp only <;> (repeat' split) <;> first | rfl | simp_all

theorem apiCreatePod_setQ (s : Sys) (q : WQ) (jo : JobObj) (i : PIndex) (r : Int) :
    apiCreatePod (setQ s q) jo i r = (setQ (apiCreatePod s jo i r).1 q, (apiCreatePod s jo i r).2) := by
  obtain ⟨clock, rv, cfg, d, job, pods, jobEvs, podEvs, jobCache, podCache, q0, faults, delRun, calls⟩ := s
  unfold apiCreatePod nextFault popFault setQ log nowT nowSec
  cases faults <;> simp only <;> (repeat' split) <;> first | rfl | simp_all

theorem apiDeletePod_setQ (s : Sys) (q : WQ) (n : String) (f : Bool) :
    apiDeletePod (setQ s q) n f = (setQ (apiDeletePod s n f).1 q, (apiDeletePod s n f).2) := by
  obtain ⟨clock, rv, cfg, d, job, pods, jobEvs, podEvs, jobCache, podCache, q0, faults, delRun, calls⟩ := s
  unfold apiDeletePod popFault setQ log nowT nowSec
  cases faults <;> cases delRun <;> simp only <;> (repeat' split) <;> first | rfl | simp_all

/-- a leaf that commutes with `setQ` and logs one call keeping the pod names -/
theorem Good.leaf {α : Type} {f : Sys → Sys × α} {s : Sys}
    (hq : ∀ q', f (setQ s q') = (setQ (f s).1 q', (f s).2)) (hk : ∃ l, Kept s (f s).1 l) : Good f s :=
  ⟨hk, ⟨[], fun q' => by rw [hq q']; rfl⟩⟩

theorem apiUpdateJob_good (c n : JobObj) (s : Sys) : Good (fun t => apiUpdateJob t c n) s := by
  refine Good.leaf (fun q' => apiUpdateJob_setQ s q' c n) ?_
  obtain ⟨x, e, _, _, _, _, _, hp⟩ := JobCtlPlan.apiUpdateJob_ext s c n
  exact ⟨[x], Kept.single e.calls e.clock (by rw [hp]; exact fun _ h => h)⟩

theorem apiUpdateJobStatus_good (c n : JobObj) (s : Sys) : Good (fun t => apiUpdateJobStatus t c n) s := by
  refine Good.leaf (fun q' => apiUpdateJobStatus_setQ s q' c n) ?_
  obtain ⟨x, e, _, _, _, _, _, hp⟩ := JobCtlPlan.apiUpdateJobStatus_ext s c n
  exact ⟨[x], Kept.single e.calls e.clock (by rw [hp]; exact fun _ h => h)⟩

theorem statusBase_setQ (s : Sys) (q : WQ) (jo : JobObj) (b : Bool) : statusBase (setQ s q) jo b = statusBase s jo b := rfl

/-- the status write of `UpdateJobAndStatus`: on top of the object `Update` returned (`statusBase`) -/
theorem apiUpdateJobStatusOn_good (jo n : JobObj) (b : Bool) (s : Sys) :
    Good (fun t => apiUpdateJobStatus t (statusBase t jo b) n) s := by
  refine Good.leaf (fun q' => ?_) ?_
  · show apiUpdateJobStatus (setQ s q') (statusBase (setQ s q') jo b) n = _
    rw [statusBase_setQ]; exact apiUpdateJobStatus_setQ s q' _ n
  · obtain ⟨x, e, _, _, _, _, _, hp⟩ := JobCtlPlan.apiUpdateJobStatus_ext s (statusBase s jo b) n
    exact ⟨[x], Kept.single e.calls e.clock (by rw [hp]; exact fun _ h => h)⟩

theorem apiDeleteJob_good (c : JobObj) (s : Sys) : Good (fun t => apiDeleteJob t c) s := by
  refine Good.leaf (fun q' => apiDeleteJob_setQ s q' c) ?_
  obtain ⟨x, e, _, _, _, _, hp⟩ := JobCtlPlan.apiDeleteJob_ext s c
  exact ⟨[x], Kept.single e.calls e.clock (by rw [hp]; exact fun _ h => h)⟩

theorem apiCreatePod_good (jo : JobObj) (i : PIndex) (r : Int) (s : Sys) : Good (fun t => apiCreatePod t jo i r) s := by
  refine Good.leaf (fun q' => apiCreatePod_setQ s q' jo i r) ?_
  obtain ⟨x, e, _⟩ := JobCtlPlan.apiCreatePod_ext s jo i r
  refine ⟨[x], Kept.single e.calls e.clock ?_⟩
  rcases apiCreatePod_spec s jo i r with h | h
  · rw [h.1.pods]; exact fun _ h => h
  · rw [h.1.pods]; intro n hn; unfold podNames at hn ⊢; simp only [List.map_append, List.mem_append]; exact Or.inl hn


/-! ### pod deletes -/

theorem mem_podNames_delPod {l : List PodObj} {n name : String} (h : n ∈ podNames l) (hne : n ≠ name) :
    n ∈ podNames (delPod l name) := by
  unfold podNames at h ⊢
  obtain ⟨x, hx, hn⟩ := List.mem_map.mp h
  refine List.mem_map.mpr ⟨x, ?_, hn⟩
  unfold delPod
  refine List.mem_filter.mpr ⟨hx, ?_⟩
  have : x.pod.name ≠ name := by rw [hn]; exact hne
  simpa using this

theorem delBody_kept (s s0 : Sys) (hc : s0.calls = s.calls) (hk : s0.clock = s.clock) (hp : s0.pods = s.pods)
    (f name : String) (force : Bool) : ∃ c, Kept s (delBody f s0 name force).1 [c] := by
  unfold delBody
  by_cases h1 : isFailFault f = true
  · rw [if_pos h1]
    exact ⟨_, Kept.single (by rw [← hc]; rfl) hk (by simp [log, hp])⟩
  · rw [if_neg h1]
    cases hf : findPod s0.pods name with
    | none =>
      simp only
      exact ⟨_, Kept.single (by rw [← hc]; rfl) hk (by simp [log, hp])⟩
    | some p =>
      simp only
      have hpn : p.pod.name = name := (findPod_some hf).2
      by_cases hfo : force = true
      · rw [if_pos hfo]
        refine ⟨⟨"delete", "pods", name, "ok", false, force⟩, ⟨by rw [← hc]; rfl, hk, ?_, fun h => by cases h⟩⟩
        intro n hn
        by_cases hne : n = name
        · exact Or.inr ⟨_, List.mem_singleton.mpr rfl, rfl, rfl, hne.symm, rfl, hfo⟩
        · left
          show n ∈ podNames (delPod (log s0 _).pods name)
          simp only [log, hp]
          exact mem_podNames_delPod hn hne
      · rw [if_neg hfo]
        by_cases hd : p.pod.deletionTimestamp.isSome = true
        · rw [if_pos hd]
          exact ⟨_, Kept.single (by rw [← hc]; rfl) hk (by simp [log, hp])⟩
        · rw [if_neg hd]
          refine ⟨_, Kept.single (by rw [← hc]; rfl) hk ?_⟩
          intro n hn
          show n ∈ podNames (setPod (log s0 _).pods _)
          simp only [log, hp]
          rw [podNames_setPod_of_mem]
          · exact hn
          · show p.pod.name ∈ podNames s.pods
            rw [← hp]
            exact List.mem_map.mpr ⟨p, (findPod_some hf).1, rfl⟩

theorem apiDeletePod_good (name : String) (force : Bool) (s : Sys) : Good (fun t => apiDeletePod t name force) s := by
  refine Good.leaf (fun q' => apiDeletePod_setQ s q' name force) ?_
  show ∃ l, Kept s (apiDeletePod s name force).1 l
  rw [apiDeletePod_eq]
  cases hd : s.delRun with
  | some f =>
    obtain ⟨c, h⟩ := delBody_kept s s rfl rfl rfl f name force
    exact ⟨_, h⟩
  | none =>
    simp only
    have hfr := popFault_frame s
    have hcalls : (popFault s).2.calls = s.calls := by unfold popFault; cases s.faults <;> rfl
    obtain ⟨c, h⟩ := delBody_kept s { (popFault s).2 with delRun := some (popFault s).1 } hcalls hfr.clock hfr.pods
      (popFault s).1 name force
    exact ⟨_, h⟩

/-- a left fold whose step is `Good` for every accumulator value -/
theorem Good.foldl {α β : Type} (step : Sys × β → α → Sys × β)
    (hstep : ∀ (b : β) (a : α) (s : Sys), Good (fun t => step (t, b) a) s) :
    ∀ (l : List α) (b : β) (s : Sys), Good (fun t => l.foldl step (t, b)) s := by
  intro l
  induction l with
  | nil => intro b s; exact Good.pure (fun _ => b) s (fun _ => rfl)
  | cons a rest ih =>
    intro b s
    have h1 := hstep b a s
    have h2 := ih (step (s, b) a).2 (step (s, b) a).1
    exact Good.of_eq (fun q' => rfl)
      (Good.bind (g := fun t => step (t, b) a) (h := fun b' t' => rest.foldl step (t', b')) h1 h2)

/-- the names `deleteTasks` deletes, in the order it deletes them -/
def delNames (clock : Int) (tasks : List Task) (force : Bool) : List String :=
  ((tasks.filter (fun t =>
      force || !(match t.deletionTimestamp with | some ts => decide (ts < clock) | none => false))).map (·.name)).foldl
    (fun acc n => deleteTasks.ins n acc) []

theorem deleteTasks_eq_fold (s : Sys) (tasks : List Task) (force : Bool) :
    deleteTasks s tasks force =
      (delNames s.clock tasks force).foldl (fun (acc : Sys × Bool) n =>
        ((apiDeletePod acc.1 n force).1, acc.2 && (apiDeletePod acc.1 n force).2)) (s, true) := rfl

theorem deleteTasks_good (tasks : List Task) (force : Bool) (s : Sys) : Good (fun t => deleteTasks t tasks force) s := by
  refine Good.of_eq (g := fun t => (delNames s.clock tasks force).foldl (fun (acc : Sys × Bool) n =>
        ((apiDeletePod acc.1 n force).1, acc.2 && (apiDeletePod acc.1 n force).2)) (t, true))
    (fun q' => deleteTasks_eq_fold (setQ s q') tasks force) ?_
  refine Good.foldl _ ?_ _ true s
  intro b n s
  exact Good.map (apiDeletePod_good n force s) (fun _ ok => b && ok) (fun _ _ _ => rfl)

/-! ### status recomputation (frames that may arm the TTL timer) -/

theorem syncJobStatus_good (key : String) (rj : Job) (s : Sys) :
    Good (fun t => syncJobStatusFromTaskRefs t key rj) s := by
  unfold syncJobStatusFromTaskRefs
  cases h : updateJobStatusFromTaskRefs s.clock s.d rj with
  | none => exact Good.of_eq (fun q' => by simp only [setQ, h]) (Good.pure (fun _ => rj) s (fun _ => rfl))
  | some newRj =>
    cases hfin : newRj.status.condition.finished with
    | none => exact Good.of_eq (fun q' => by simp only [setQ, h, hfin]) (Good.pure (fun _ => newRj) s (fun _ => rfl))
    | some fin =>
      by_cases hdel : isDeleted newRj = true
      · exact Good.of_eq (fun q' => by simp [setQ, h, hfin, hdel]) (Good.pure (fun _ => newRj) s (fun _ => rfl))
      · cases httl : newRj.ttlSecondsAfterFinished with
        | none => exact Good.of_eq (fun q' => by simp [setQ, h, hfin, hdel, httl]) (Good.pure (fun _ => newRj) s (fun _ => rfl))
        | some ttl =>
          exact Good.of_eq (fun q' => by simp [setQ, h, hfin, hdel, httl])
            (enqueueAfter_good key (fin.finishTimestamp.getD zeroTime + secs ttl) newRj s)

theorem updateTaskRefStatus_good (key : String) (rj : Job) (tasks : List Task) (s : Sys) :
    Good (fun t => updateTaskRefStatus t key rj tasks) s := by
  unfold updateTaskRefStatus
  exact Good.of_eq (fun q' => rfl) (syncJobStatus_good key (updateJobTaskRefs s.clock rj tasks) s)


/-! ### task creation -/

/-- what `syncCreateTask` returns, as a function of the state after the create and its result -/
def createOut (now : Time) (jo : JobObj) (rj : Job) (tasks : List Task) (idx : PIndex) (retry : Int) (s1 : Sys) :
    CreateRes → Option (Job × List Task)
  | .ok p => (podTask now p).map (fun t => (rj, tasks ++ [t]))
  | .err => none
  | .exists =>
    match findPod s1.podCache (taskName jo.name idx.hash retry) with
    | none => none
    | some p =>
      if p.ownerUid = some jo.uid then (podTask now p).map (fun t => (rj, tasks ++ [t]))
      else some ({ rj with admissionError := true }, tasks)

theorem syncCreateTask_eq (s : Sys) (jo : JobObj) (rj : Job) (tasks : List Task) (idx : PIndex) (retry : Int) :
    syncCreateTask s jo rj tasks idx retry =
      ((apiCreatePod s jo idx retry).1,
       createOut s.clock jo rj tasks idx retry (apiCreatePod s jo idx retry).1 (apiCreatePod s jo idx retry).2) := by
  unfold syncCreateTask createOut
  generalize apiCreatePod s jo idx retry = r
  obtain ⟨s1, res⟩ := r
  cases res with
  | ok p => rfl
  | err => rfl
  | «exists» =>
    simp only
    cases findPod s1.podCache (taskName jo.name idx.hash retry) with
    | none => rfl
    | some p => by_cases hp : p.ownerUid = some jo.uid <;> simp [hp]

theorem syncCreateTask_good (jo : JobObj) (rj : Job) (tasks : List Task) (idx : PIndex) (retry : Int) (s : Sys) :
    Good (fun t => syncCreateTask t jo rj tasks idx retry) s :=
  Good.of_eq (fun q' => syncCreateTask_eq (setQ s q') jo rj tasks idx retry)
    (Good.map (apiCreatePod_good jo idx retry s) (createOut s.clock jo rj tasks idx retry) (fun _ _ a => by cases a <;> rfl))

/-- the continuation of `createLoop` after the create of one request -/
def createK (jo : JobObj) (rest : List CreationRequest) (m : Option Time) (o : Option (Job × List Task)) (s1 : Sys) :
    Sys × Option (Job × List Task × Option Time) :=
  match o with
  | none => (s1, none)
  | some (rj1, tasks1) => createLoop jo rest s1 rj1 tasks1 m

theorem createLoop_good (jo : JobObj) : ∀ (reqs : List CreationRequest) (rj : Job) (tasks : List Task)
    (minE : Option Time) (s : Sys), Good (fun t => createLoop jo reqs t rj tasks minE) s := by
  intro reqs
  induction reqs with
  | nil =>
    intro rj tasks minE s
    exact Good.of_eq (fun q' => by unfold createLoop; rfl) (Good.pure (fun _ => some (rj, tasks, minE)) s (fun _ => rfl))
  | cons r rest ih =>
    intro rj tasks minE s
    by_cases hskip : skipReq r s = true
    · exact Good.of_eq (fun q' => by rw [createLoop_cons]; exact if_pos hskip) (ih rj tasks (nextMinE r minE) s)
    · have h1 := syncCreateTask_good jo rj tasks r.index r.retryIndex s
      refine Good.of_eq (g := fun t => createK jo rest (nextMinE r minE)
          (syncCreateTask t jo rj tasks r.index r.retryIndex).2 (syncCreateTask t jo rj tasks r.index r.retryIndex).1) ?_
        (Good.bind (h := createK jo rest (nextMinE r minE)) h1 ?_)
      · intro q'
        rw [createLoop_cons]
        have : ¬ skipReq r (setQ s q') = true := hskip
        rw [if_neg this]
        unfold createK
        generalize syncCreateTask (setQ s q') jo rj tasks r.index r.retryIndex = res
        obtain ⟨s1, o⟩ := res
        cases o with
        | none => rfl
        | some pr => rfl
      · unfold createK
        cases (syncCreateTask s jo rj tasks r.index r.retryIndex).2 with
        | none => exact Good.pure (fun _ => none) _ (fun _ => rfl)
        | some pr => exact ih pr.1 pr.2 _ _

theorem armMin_good {α : Type} (key : String) (minE : Option Time) (a : α) (s : Sys) :
    Good (fun t => (JobCtlPlan.armMin t key minE, a)) s := by
  cases minE with
  | none => exact Good.pure (fun _ => a) s (fun _ => rfl)
  | some t0 => exact enqueueAfter_good key t0 a s

/-- the continuation of `syncCreateTasks` after the creation loop -/
def createTasksK (jo : JobObj) (o : Option (Job × List Task × Option Time)) (s1 : Sys) : Sys × Option (Job × List Task) :=
  match o with
  | none => (s1, none)
  | some (rj1, tasks1, minE) =>
    ((updateTaskRefStatus (JobCtlPlan.armMin s1 (jobKey jo) minE) (jobKey jo) rj1 tasks1).1,
     some ((updateTaskRefStatus (JobCtlPlan.armMin s1 (jobKey jo) minE) (jobKey jo) rj1 tasks1).2, tasks1))

theorem createTasksK_good (jo : JobObj) (o : Option (Job × List Task × Option Time)) (s : Sys) :
    Good (createTasksK jo o) s := by
  unfold createTasksK
  cases o with
  | none => exact Good.pure (fun _ => none) _ (fun _ => rfl)
  | some pr =>
    obtain ⟨rj1, tasks1, minE⟩ := pr
    have ha := armMin_good (jobKey jo) minE () s
    have hu := updateTaskRefStatus_good (jobKey jo) rj1 tasks1 (JobCtlPlan.armMin s (jobKey jo) minE)
    have hb := Good.bind (g := fun t => (JobCtlPlan.armMin t (jobKey jo) minE, ()))
      (h := fun _ t => updateTaskRefStatus t (jobKey jo) rj1 tasks1) ha hu
    exact Good.map hb (fun _ rj2 => some (rj2, tasks1)) (fun _ _ _ => rfl)

theorem syncCreateTasks_good (jo : JobObj) (rj : Job) (tasks : List Task) (s : Sys) :
    Good (fun t => syncCreateTasks t jo rj tasks) s := by
  by_cases h1 : (!canCreateTask rj) = true
  · exact Good.of_eq (fun q' => by rw [JobCtlPlan.syncCreateTasks_eq, if_pos h1])
      (Good.pure (fun t => some (rj, adoptUnrecordedTasks t jo tasks)) s (fun _ => rfl))
  by_cases h2 : (JobCtlPlan.refreshedSummary s rj tasks).complete = true
  · exact Good.of_eq (fun q' => by
        rw [JobCtlPlan.syncCreateTasks_eq, if_neg h1]
        exact if_pos h2)
      (Good.pure (fun t => some (rj, adoptUnrecordedTasks t jo tasks)) s (fun _ => rfl))
  cases hcm : computeMissingIndexesForCreation s.d rj (rj.indexes s.d) with
  | none =>
    refine Good.of_eq (fun q' => ?_) (Good.pure (fun _ => none) s (fun _ => rfl))
    rw [JobCtlPlan.syncCreateTasks_eq, if_neg h1]
    have h2' : ¬ (JobCtlPlan.refreshedSummary (setQ s q') rj tasks).complete = true := h2
    rw [if_neg h2']
    have : computeMissingIndexesForCreation (setQ s q').d rj (rj.indexes (setQ s q').d) = none := hcm
    rw [this]
  | some reqs =>
    have hl := createLoop_good jo reqs rj tasks none s
    refine Good.of_eq (g := fun t => createTasksK jo (createLoop jo reqs t rj tasks none).2
      (createLoop jo reqs t rj tasks none).1) (fun q' => ?_)
      (Good.bind (h := createTasksK jo) hl (createTasksK_good jo _ _))
    rw [JobCtlPlan.syncCreateTasks_eq, if_neg h1]
    have h2' : ¬ (JobCtlPlan.refreshedSummary (setQ s q') rj tasks).complete = true := h2
    rw [if_neg h2']
    have : computeMissingIndexesForCreation (setQ s q').d rj (rj.indexes (setQ s q').d) = some reqs := hcm
    rw [this]
    simp only
    unfold createTasksK
    cases (createLoop jo reqs (setQ s q') rj tasks none).2 with
    | none => rfl
    | some pr => rfl


/-! ### the three handlers -/

theorem handleKillJob_good (jo : JobObj) (rj : Job) (tasks : List Task) (s : Sys) :
    Good (fun t => handleKillJob t jo rj tasks) s := by
  by_cases h1 : shouldKillJob s.clock rj = true
  · by_cases h2 : (JobCtlPlan.killTargets tasks).isEmpty = true
    · exact Good.of_eq (fun q' => by rw [JobCtlPlan.handleKillJob_eq]; simp only [setQ, h1, h2, if_true])
        (Good.pure (fun _ => some rj) s (fun _ => rfl))
    · refine Good.of_eq (fun q' => ?_)
        (Good.map (deleteTasks_good (JobCtlPlan.killTargets tasks) false s)
          (fun _ ok => if ok = true then some (JobCtlPlan.killMark rj tasks) else none) (fun _ _ _ => rfl))
      rw [JobCtlPlan.handleKillJob_eq]
      have : shouldKillJob (setQ s q').clock rj = true := h1
      rw [if_pos this, if_neg h2]
  · -- not to be killed (yet): a kill timestamp in the future arms a timer for it, nothing else
    have hnk0 : shouldKillJob s.clock rj = false := by simpa using h1
    have hnk : ∀ q', shouldKillJob (setQ s q').clock rj = false := fun _ => hnk0
    cases hts : rj.killTimestamp with
    | none =>
      exact Good.of_eq (fun q' => by rw [JobCtlPlan.handleKillJob_not _ jo rj tasks (hnk q'), hts])
        (Good.pure (fun _ => some rj) s (fun _ => rfl))
    | some ts =>
      exact Good.of_eq (fun q' => by rw [JobCtlPlan.handleKillJob_not _ jo rj tasks (hnk q'), hts])
        (enqueueAfter_good (jobKey jo) ts (some rj) s)

theorem pendStep_good (key : String) (T : Int) (rj : Job) (nd : List Task) (task : Task) (s : Sys) :
    Good (fun t => JobCtlPlan.pendStep key T rj (t, nd) task) s := by
  unfold JobCtlPlan.pendStep
  by_cases h1 : (pendRef rj task).finishTimestamp.isSome = true
  · exact Good.of_eq (fun q' => by simp only [h1, ↓reduceIte, if_true]) (Good.pure (fun _ => nd) s (fun _ => rfl))
  by_cases h2 : (pendRef rj task).runningTimestamp.isSome = true
  · exact Good.of_eq (fun q' => by simp only [h1, h2, Bool.false_eq_true, ↓reduceIte, if_true, if_false]) (Good.pure (fun _ => nd) s (fun _ => rfl))
  by_cases h3 : JobCtlPlan.pendDeadline T (pendRef rj task) > s.clock
  · refine Good.of_eq (fun q' => ?_) (enqueueAfter_good key (JobCtlPlan.pendDeadline T (pendRef rj task)) nd s)
    have : JobCtlPlan.pendDeadline T (pendRef rj task) > (setQ s q').clock := h3
    simp only [h1, h2, this, Bool.false_eq_true, ↓reduceIte, if_true, if_false]
  by_cases h4 : task.deletionTimestamp.isSome = true
  · refine Good.of_eq (fun q' => ?_) (Good.pure (fun _ => nd) s (fun _ => rfl))
    have : ¬ JobCtlPlan.pendDeadline T (pendRef rj task) > (setQ s q').clock := h3
    simp only [h1, h2, this, h4, Bool.false_eq_true, ↓reduceIte, if_true, if_false]
  · refine Good.of_eq (fun q' => ?_) (Good.pure (fun _ => nd ++ [task]) s (fun _ => rfl))
    have : ¬ JobCtlPlan.pendDeadline T (pendRef rj task) > (setQ s q').clock := h3
    simp only [h1, h2, this, h4, Bool.false_eq_true, ↓reduceIte, if_true, if_false]

/-- the continuation of `handlePendingTasks` after its loop -/
def pendK (rj : Job) (nd : List Task) (t : Sys) : Sys × Option Job :=
  if nd.isEmpty = true then (t, some rj)
  else ((deleteTasks t nd false).1,
        if (deleteTasks t nd false).2 = true then
          some (markDeleted rj (nd.map (·.name)) (fun x => { x with deletedStatus := some JobCtlPlan.pendingStatus }))
        else none)

theorem pendK_good (rj : Job) (nd : List Task) (s : Sys) : Good (pendK rj nd) s := by
  by_cases h : nd.isEmpty = true
  · exact Good.of_eq (fun q' => by unfold pendK; rw [if_pos h]) (Good.pure (fun _ => some rj) s (fun _ => rfl))
  · exact Good.of_eq (fun q' => by unfold pendK; rw [if_neg h])
      (Good.map (deleteTasks_good nd false s) (fun _ ok => if ok = true then
          some (markDeleted rj (nd.map (·.name)) (fun x => { x with deletedStatus := some JobCtlPlan.pendingStatus }))
        else none) (fun _ _ _ => rfl))

theorem handlePendingTasks_good (jo : JobObj) (rj : Job) (tasks : List Task) (s : Sys) :
    Good (fun t => handlePendingTasks t jo rj tasks) s := by
  cases hT : getPendingTimeout rj s.cfg with
  | none =>
    refine Good.of_eq (fun q' => ?_) (Good.pure (fun _ => some rj) s (fun _ => rfl))
    rw [JobCtlPlan.handlePendingTasks_eq]
    have : getPendingTimeout rj (setQ s q').cfg = none := hT
    rw [this]
  | some T =>
    by_cases h0 : T ≤ 0
    · refine Good.of_eq (fun q' => ?_) (Good.pure (fun _ => some rj) s (fun _ => rfl))
      rw [JobCtlPlan.handlePendingTasks_eq]
      have : getPendingTimeout rj (setQ s q').cfg = some T := hT
      rw [this]
      simp only [h0, if_true]
    · have hf := Good.foldl (JobCtlPlan.pendStep (jobKey jo) T rj) (pendStep_good (jobKey jo) T rj) tasks [] s
      refine Good.of_eq (g := fun t => pendK rj (tasks.foldl (JobCtlPlan.pendStep (jobKey jo) T rj) (t, [])).2
          (tasks.foldl (JobCtlPlan.pendStep (jobKey jo) T rj) (t, [])).1) (fun q' => ?_)
        (Good.bind (h := pendK rj) hf (pendK_good rj _ _))
      rw [JobCtlPlan.handlePendingTasks_eq]
      have : getPendingTimeout rj (setQ s q').cfg = some T := hT
      rw [this]
      simp only [h0, if_false]
      rfl

theorem forceStep_good (key : String) (F : Int) (nd : List Task) (task : Task) (s : Sys) :
    Good (fun t => JobCtlPlan.forceStep key F (t, nd) task) s := by
  unfold JobCtlPlan.forceStep
  cases hd : task.deletionTimestamp with
  | none => exact Good.of_eq (fun q' => by simp only) (Good.pure (fun _ => nd) s (fun _ => rfl))
  | some dts =>
    by_cases h3 : (!(decide (JobCtlPlan.forceDeadline F dts > s.clock))) = true
    · refine Good.of_eq (fun q' => ?_) (Good.pure (fun _ => nd ++ [task]) s (fun _ => rfl))
      have : (!(decide (JobCtlPlan.forceDeadline F dts > (setQ s q').clock))) = true := h3
      simp only [this, ↓reduceIte, if_true]
    · refine Good.of_eq (fun q' => ?_) (enqueueAfter_good key (JobCtlPlan.forceDeadline F dts) nd s)
      have : ¬ (!(decide (JobCtlPlan.forceDeadline F dts > (setQ s q').clock))) = true := h3
      simp only [this, Bool.false_eq_true, ↓reduceIte, if_false]

/-- the continuation of `handleForceDelete` after its loop -/
def forceK (rj : Job) (tasks : List Task) (nd : List Task) (t : Sys) : Sys × Option Job :=
  if nd.isEmpty = true then (t, some rj)
  else ((deleteTasks t nd true).1,
        if (deleteTasks t nd true).2 = true then
          some (updateJobTaskRefs t.clock (markDeleted rj (nd.map (·.name)) JobCtlPlan.forceMarkRef) tasks)
        else none)

theorem forceK_good (rj : Job) (tasks nd : List Task) (s : Sys) : Good (forceK rj tasks nd) s := by
  by_cases h : nd.isEmpty = true
  · exact Good.of_eq (fun q' => by unfold forceK; rw [if_pos h]) (Good.pure (fun _ => some rj) s (fun _ => rfl))
  · have hd := deleteTasks_good nd true s
    let m : Sys → Bool → Option Job := fun (_ : Sys) (ok : Bool) => if ok = true then
          some (updateJobTaskRefs s.clock (markDeleted rj (nd.map (·.name)) JobCtlPlan.forceMarkRef) tasks)
        else none
    have hm := Good.map (β := Option Job) hd m (fun _ _ _ => rfl)
    refine Good.of_eq (fun q' => ?_) hm
    unfold forceK
    rw [if_neg h]
    have : (setQ s q').clock = s.clock := rfl
    rw [this]

theorem handleForceDelete_good (jo : JobObj) (rj : Job) (tasks : List Task) (s : Sys) :
    Good (fun t => handleForceDelete t jo rj tasks) s := by
  by_cases h0 : getForceDeleteTimeout s.cfg ≤ 0
  · refine Good.of_eq (fun q' => ?_) (Good.pure (fun _ => some rj) s (fun _ => rfl))
    rw [JobCtlPlan.handleForceDelete_eq]
    have : getForceDeleteTimeout (setQ s q').cfg ≤ 0 := h0
    rw [if_pos this]
  by_cases h1 : JobCtlPlan.forbidsForce rj = true
  · refine Good.of_eq (fun q' => ?_) (Good.pure (fun _ => some rj) s (fun _ => rfl))
    rw [JobCtlPlan.handleForceDelete_eq]
    have : ¬ getForceDeleteTimeout (setQ s q').cfg ≤ 0 := h0
    rw [if_neg this, if_pos h1]
  · have hf := Good.foldl (JobCtlPlan.forceStep (jobKey jo) (getForceDeleteTimeout s.cfg))
      (forceStep_good (jobKey jo) (getForceDeleteTimeout s.cfg)) tasks [] s
    refine Good.of_eq (g := fun t => forceK rj tasks
        (tasks.foldl (JobCtlPlan.forceStep (jobKey jo) (getForceDeleteTimeout s.cfg)) (t, [])).2
        (tasks.foldl (JobCtlPlan.forceStep (jobKey jo) (getForceDeleteTimeout s.cfg)) (t, [])).1) (fun q' => ?_)
      (Good.bind (h := forceK rj tasks) hf (forceK_good rj tasks _ _))
    rw [JobCtlPlan.handleForceDelete_eq]
    have : ¬ getForceDeleteTimeout (setQ s q').cfg ≤ 0 := h0
    rw [if_neg this, if_neg h1]
    rfl


/-! ### `syncJobTasks` -/

def tasksK5 (jo : JobObj) (tasks1 : List Task) (o : Option Job) (s5 : Sys) : Sys × Option Job :=
  match o with
  | none => (s5, none)
  | some rj5 => ((updateTaskRefStatus s5 (jobKey jo) rj5 tasks1).1, some (updateTaskRefStatus s5 (jobKey jo) rj5 tasks1).2)

def tasksK4 (jo : JobObj) (tasks1 : List Task) (o : Option Job) (s4 : Sys) : Sys × Option Job :=
  match o with
  | none => (s4, none)
  | some rj4 => tasksK5 jo tasks1 (handleForceDelete s4 jo rj4 tasks1).2 (handleForceDelete s4 jo rj4 tasks1).1

def tasksK3 (jo : JobObj) (tasks1 : List Task) (o : Option Job) (s3 : Sys) : Sys × Option Job :=
  match o with
  | none => (s3, none)
  | some rj3 => tasksK4 jo tasks1 (handleKillJob s3 jo rj3 tasks1).2 (handleKillJob s3 jo rj3 tasks1).1

def tasksK2 (jo : JobObj) (tasks1 : List Task) (rj2 : Job) (s2 : Sys) : Sys × Option Job :=
  tasksK3 jo tasks1 (handlePendingTasks s2 jo rj2 tasks1).2 (handlePendingTasks s2 jo rj2 tasks1).1

def tasksK1 (jo : JobObj) (o : Option (Job × List Task)) (s1 : Sys) : Sys × Option Job :=
  match o with
  | none => (s1, none)
  | some (rj1, tasks1) =>
    tasksK2 jo tasks1 (updateTaskRefStatus s1 (jobKey jo) rj1 tasks1).2 (updateTaskRefStatus s1 (jobKey jo) rj1 tasks1).1

theorem syncJobTasks_eqK (s : Sys) (jo : JobObj) (rj : Job) :
    syncJobTasks s jo rj =
      tasksK1 jo (syncCreateTasks s jo rj (tasksForRefs s jo rj.status.tasks)).2
        (syncCreateTasks s jo rj (tasksForRefs s jo rj.status.tasks)).1 := by
  unfold syncJobTasks tasksK1
  simp only
  generalize syncCreateTasks s jo rj (tasksForRefs s jo rj.status.tasks) = r1
  obtain ⟨s1, o1⟩ := r1
  cases o1 with
  | none => rfl
  | some pr =>
    obtain ⟨rj1, tasks1⟩ := pr
    simp only
    unfold tasksK2 tasksK3
    generalize updateTaskRefStatus s1 (jobKey jo) rj1 tasks1 = r2
    obtain ⟨s2, rj2⟩ := r2
    simp only
    generalize handlePendingTasks s2 jo rj2 tasks1 = r3
    obtain ⟨s3, o3⟩ := r3
    cases o3 with
    | none => rfl
    | some rj3 =>
      simp only
      unfold tasksK4
      generalize handleKillJob s3 jo rj3 tasks1 = r4
      obtain ⟨s4, o4⟩ := r4
      cases o4 with
      | none => rfl
      | some rj4 =>
        simp only
        unfold tasksK5
        generalize handleForceDelete s4 jo rj4 tasks1 = r5
        obtain ⟨s5, o5⟩ := r5
        cases o5 with
        | none => rfl
        | some rj5 => rfl

theorem tasksK5_good (jo : JobObj) (tasks1 : List Task) (o : Option Job) (s : Sys) : Good (tasksK5 jo tasks1 o) s := by
  unfold tasksK5
  cases o with
  | none => exact Good.pure (fun _ => none) _ (fun _ => rfl)
  | some rj5 =>
    exact Good.map (updateTaskRefStatus_good (jobKey jo) rj5 tasks1 s) (fun _ rj6 => some rj6) (fun _ _ _ => rfl)

theorem tasksK4_good (jo : JobObj) (tasks1 : List Task) (o : Option Job) (s : Sys) : Good (tasksK4 jo tasks1 o) s := by
  unfold tasksK4
  cases o with
  | none => exact Good.pure (fun _ => none) _ (fun _ => rfl)
  | some rj4 =>
    exact Good.bind (g := fun t => handleForceDelete t jo rj4 tasks1) (h := tasksK5 jo tasks1)
      (handleForceDelete_good jo rj4 tasks1 s) (tasksK5_good jo tasks1 _ _)

theorem tasksK3_good (jo : JobObj) (tasks1 : List Task) (o : Option Job) (s : Sys) : Good (tasksK3 jo tasks1 o) s := by
  unfold tasksK3
  cases o with
  | none => exact Good.pure (fun _ => none) _ (fun _ => rfl)
  | some rj3 =>
    exact Good.bind (g := fun t => handleKillJob t jo rj3 tasks1) (h := tasksK4 jo tasks1)
      (handleKillJob_good jo rj3 tasks1 s) (tasksK4_good jo tasks1 _ _)

theorem tasksK2_good (jo : JobObj) (tasks1 : List Task) (rj2 : Job) (s : Sys) : Good (tasksK2 jo tasks1 rj2) s := by
  unfold tasksK2
  exact Good.bind (g := fun t => handlePendingTasks t jo rj2 tasks1) (h := tasksK3 jo tasks1)
    (handlePendingTasks_good jo rj2 tasks1 s) (tasksK3_good jo tasks1 _ _)

theorem tasksK1_good (jo : JobObj) (o : Option (Job × List Task)) (s : Sys) : Good (tasksK1 jo o) s := by
  unfold tasksK1
  cases o with
  | none => exact Good.pure (fun _ => none) _ (fun _ => rfl)
  | some pr =>
    obtain ⟨rj1, tasks1⟩ := pr
    exact Good.bind (g := fun t => updateTaskRefStatus t (jobKey jo) rj1 tasks1) (h := tasksK2 jo tasks1)
      (updateTaskRefStatus_good (jobKey jo) rj1 tasks1 s) (tasksK2_good jo tasks1 _ _)

theorem syncJobTasks_good (jo : JobObj) (rj : Job) (s : Sys) : Good (fun t => syncJobTasks t jo rj) s := by
  refine Good.of_eq (g := fun t => tasksK1 jo (syncCreateTasks t jo rj (tasksForRefs s jo rj.status.tasks)).2
      (syncCreateTasks t jo rj (tasksForRefs s jo rj.status.tasks)).1)
    (fun q' => syncJobTasks_eqK (setQ s q') jo rj) ?_
  exact Good.bind (g := fun t => syncCreateTasks t jo rj (tasksForRefs s jo rj.status.tasks)) (h := tasksK1 jo)
    (syncCreateTasks_good jo rj _ s) (tasksK1_good jo _ _)

/-! ### TTL, finalizer -/

theorem handleTTL_good (jo : JobObj) (rj : Job) (s : Sys) : Good (fun t => handleTTL t jo rj) s := by
  unfold handleTTL
  by_cases h1 : isDeleted rj = true
  · exact Good.of_eq (fun q' => by simp only [h1, if_true]) (Good.pure (fun _ => true) s (fun _ => rfl))
  cases hfin : rj.status.condition.finished with
  | none => exact Good.of_eq (fun q' => by simp only [h1, hfin, Bool.false_eq_true, if_false]) (Good.pure (fun _ => true) s (fun _ => rfl))
  | some fin =>
    by_cases h2 : fin.finishTimestamp.getD zeroTime + getTTLAfterFinished rj s.cfg > s.clock
    · -- not yet expired: the timer for the expiry (finish + effective TTL), nothing else
      refine Good.of_eq (fun q' => ?_)
        (enqueueAfter_good (jobKey jo) (fin.finishTimestamp.getD zeroTime + getTTLAfterFinished rj s.cfg) true s)
      have : fin.finishTimestamp.getD zeroTime + getTTLAfterFinished rj (setQ s q').cfg > (setQ s q').clock := h2
      simp only [h1, hfin, this, Bool.false_eq_true, if_false, if_true]
      rfl
    · refine Good.of_eq (fun q' => ?_) (apiDeleteJob_good jo s)
      have : ¬ fin.finishTimestamp.getD zeroTime + getTTLAfterFinished rj (setQ s q').cfg > (setQ s q').clock := h2
      simp only [h1, hfin, this, Bool.false_eq_true, if_false]

/-- the continuation of `handleFinalizer` after the status refresh, when tasks remain -/
def finK (tasks : List Task) (fz : Bool) (rj2 : Job) (s1 : Sys) : Sys × Option (Job × Bool) :=
  ((deleteTasks s1 tasks false).1, if (deleteTasks s1 tasks false).2 = true then some (rj2, fz) else none)

theorem finK_good (tasks : List Task) (fz : Bool) (rj2 : Job) (s : Sys) : Good (finK tasks fz rj2) s := by
  unfold finK
  exact Good.map (deleteTasks_good tasks false s) (fun _ ok => if ok = true then some (rj2, fz) else none)
    (fun _ _ _ => rfl)

theorem handleFinalizer_good (jo : JobObj) (rj : Job) (fz : Bool) (s : Sys) :
    Good (fun t => handleFinalizer t jo rj fz) s := by
  unfold handleFinalizer
  by_cases h1 : rj.deletionTimestamp.isNone = true
  · exact Good.of_eq (fun q' => by simp only [h1, if_true]) (Good.pure (fun _ => some (rj, fz)) s (fun _ => rfl))
  by_cases h2 : (!fz) = true
  · exact Good.of_eq (fun q' => by simp only [h1, h2, Bool.false_eq_true, if_false, if_true])
      (Good.pure (fun _ => some (rj, fz)) s (fun _ => rfl))
  obtain ⟨tk, htk⟩ : ∃ tk, tk = finalizerTasks s jo rj := ⟨_, rfl⟩
  have e : ∀ q', finalizerTasks (setQ s q') jo rj = tk := fun _ => htk.symm
  by_cases h3 : (!tk.isEmpty) = true
  · obtain ⟨rj1, hrj1⟩ : ∃ rj1, rj1 = tk.foldl (fun acc t => updateTaskRefDeletedStatusIfNotSet acc t.name
        { state := .terminated, result := .killed, reason := "JobDeleted" }) rj := ⟨_, rfl⟩
    refine Good.of_eq (g := fun t => finK tk fz (updateTaskRefStatus t (jobKey jo) rj1 tk).2
        (updateTaskRefStatus t (jobKey jo) rj1 tk).1) (fun q' => ?_)
      (Good.bind (g := fun t => updateTaskRefStatus t (jobKey jo) rj1 tk) (h := finK tk fz)
        (updateTaskRefStatus_good (jobKey jo) rj1 tk s) (finK_good tk fz _ _))
    simp only [h1, h2, e q', h3, ← hrj1, Bool.false_eq_true, if_false, if_true]
    unfold finK
    rfl
  · refine Good.of_eq (fun q' => ?_)
      (Good.map (updateTaskRefStatus_good (jobKey jo) rj [] s) (fun _ rj1 => some (rj1, false)) (fun _ _ _ => rfl))
    simp only [h1, h2, e q', h3, Bool.false_eq_true, if_false]


/-! ### `sync`, `syncOne` -/

theorem syncTasksStage_good (jo : JobObj) (s : Sys) : Good (fun t => JobCtlPlan.syncTasksStage t jo) s := by
  unfold JobCtlPlan.syncTasksStage
  by_cases h : (isStarted jo.job && !isDeleted jo.job) = true
  · exact Good.of_eq (fun q' => by rw [if_pos h]) (syncJobTasks_good jo jo.job s)
  · exact Good.of_eq (fun q' => by rw [if_neg h]) (Good.pure (fun _ => some jo.job) s (fun _ => rfl))

/-- what `sync` returns after the finalizer step -/
def syncOut (jo : JobObj) (rj2 : Job) (null2 null3 : Bool) : Option (Job × Bool) → Job × Bool × Bool × Bool
  | none => (rj2, jo.finalizer, false, null2)
  | some (rj3, fin) => (rj3, fin, true, null3)

/-- `null3` of `sync`, computed in the state the finalizer step starts in -/
def null3Of (jo : JobObj) (rj2 : Job) (null2 : Bool) (s3 : Sys) : Bool :=
  match finalizerStatusInput s3 jo rj2 jo.finalizer with
  | some inp => statusHasNullTime s3 inp
  | none => null2

def syncK3 (jo : JobObj) (rj2 : Job) (null2 : Bool) (b : Bool) (s3 : Sys) : Sys × Job × Bool × Bool × Bool :=
  match b with
  | false => (s3, rj2, jo.finalizer, false, null2)
  | true => ((handleFinalizer s3 jo rj2 jo.finalizer).1,
      syncOut jo rj2 null2 (null3Of jo rj2 null2 s3) (handleFinalizer s3 jo rj2 jo.finalizer).2)

def syncK2 (jo : JobObj) (null2 : Bool) (rj2 : Job) (s2 : Sys) : Sys × Job × Bool × Bool × Bool :=
  syncK3 jo rj2 null2 (handleTTL s2 jo rj2).2 (handleTTL s2 jo rj2).1

def syncK1 (jo : JobObj) (o : Option Job) (s1 : Sys) : Sys × Job × Bool × Bool × Bool :=
  match o with
  | none => (s1, jo.job, jo.finalizer, false, false)
  | some rj1 =>
    syncK2 jo (statusHasNullTime s1 rj1) (syncJobStatusFromTaskRefs s1 (jobKey jo) rj1).2
      (syncJobStatusFromTaskRefs s1 (jobKey jo) rj1).1

theorem sync_eqK (s : Sys) (jo : JobObj) :
    sync s jo = syncK1 jo (JobCtlPlan.syncTasksStage s jo).2 (JobCtlPlan.syncTasksStage s jo).1 := by
  rw [JobCtlPlan.sync_eq]
  unfold syncK1
  cases (JobCtlPlan.syncTasksStage s jo).2 with
  | none => rfl
  | some rj1 =>
    simp only
    unfold syncK2 syncK3
    cases (handleTTL (syncJobStatusFromTaskRefs (JobCtlPlan.syncTasksStage s jo).1 (jobKey jo) rj1).1 jo
      (syncJobStatusFromTaskRefs (JobCtlPlan.syncTasksStage s jo).1 (jobKey jo) rj1).2).2 with
    | false => rfl
    | true =>
      simp only
      unfold syncOut null3Of
      cases (handleFinalizer (handleTTL (syncJobStatusFromTaskRefs (JobCtlPlan.syncTasksStage s jo).1 (jobKey jo) rj1).1 jo
        (syncJobStatusFromTaskRefs (JobCtlPlan.syncTasksStage s jo).1 (jobKey jo) rj1).2).1 jo
        (syncJobStatusFromTaskRefs (JobCtlPlan.syncTasksStage s jo).1 (jobKey jo) rj1).2 jo.finalizer).2 with
      | none => rfl
      | some pr => rfl

theorem syncK3_good (jo : JobObj) (rj2 : Job) (null2 : Bool) (b : Bool) (s : Sys) : Good (syncK3 jo rj2 null2 b) s := by
  cases b with
  | false =>
    exact Good.of_eq (fun q' => (by unfold syncK3; rfl))
      (Good.pure (fun _ => (rj2, jo.finalizer, false, null2)) s (fun _ => rfl))
  | true =>
    have hf := handleFinalizer_good jo rj2 jo.finalizer s
    let m : Sys → Option (Job × Bool) → Job × Bool × Bool × Bool :=
      fun _ o => syncOut jo rj2 null2 (null3Of jo rj2 null2 s) o
    have hm := Good.map hf m (fun _ _ _ => rfl)
    exact Good.of_eq (fun q' => by unfold syncK3; rfl) hm

theorem syncK2_good (jo : JobObj) (null2 : Bool) (rj2 : Job) (s : Sys) : Good (syncK2 jo null2 rj2) s := by
  unfold syncK2
  exact Good.bind (g := fun t => handleTTL t jo rj2) (h := syncK3 jo rj2 null2) (handleTTL_good jo rj2 s)
    (syncK3_good jo rj2 null2 _ _)

theorem syncK1_good (jo : JobObj) (o : Option Job) (s : Sys) : Good (syncK1 jo o) s := by
  cases o with
  | none =>
    exact Good.of_eq (fun q' => (by unfold syncK1; rfl))
      (Good.pure (fun _ => (jo.job, jo.finalizer, false, false)) s (fun _ => rfl))
  | some rj1 =>
    have hb := Good.bind (g := fun t => syncJobStatusFromTaskRefs t (jobKey jo) rj1)
      (h := syncK2 jo (statusHasNullTime s rj1)) (syncJobStatus_good (jobKey jo) rj1 s) (syncK2_good jo _ _ _)
    exact Good.of_eq (fun q' => by unfold syncK1; rfl) hb

theorem sync_good (jo : JobObj) (s : Sys) : Good (fun t => sync t jo) s :=
  Good.of_eq_all (fun t => sync_eqK t jo)
    (Good.bind (g := fun t => JobCtlPlan.syncTasksStage t jo) (h := syncK1 jo) (syncTasksStage_good jo s)
      (syncK1_good jo _ _))

/-- the two final Job writes of `SyncOne`, given what `sync` returned -/
def oneK (jo : JobObj) (r : Job × Bool × Bool × Bool) (s1 : Sys) : Sys × Bool :=
  let w1 : Sys × Bool :=
    if (r.1.admissionError ≠ jo.job.admissionError || r.2.1 ≠ jo.finalizer) = true then
      apiUpdateJob s1 jo { jo with job := r.1, finalizer := r.2.1 } else (s1, true)
  if (!w1.2) = true then (w1.1, false)
  else
    let w2 : Sys × Bool :=
      if (decide (r.1.status ≠ jo.job.status) || r.2.2.2) = true then
        apiUpdateJobStatus w1.1 (statusBase w1.1 jo (r.1.admissionError ≠ jo.job.admissionError || r.2.1 ≠ jo.finalizer)) { jo with job := r.1 } else (w1.1, true)
    if (!w2.2) = true then (w2.1, false) else (w2.1, r.2.2.1)

theorem syncOne_eqK (s : Sys) (jo : JobObj) (hc : s.jobCache = some jo) :
    syncOne s = oneK jo (sync s jo).2 (sync s jo).1 := by
  unfold syncOne oneK
  simp only [hc]

/-- second write -/
def oneK2 (jo : JobObj) (r : Job × Bool × Bool × Bool) (ok1 : Bool) (s2 : Sys) : Sys × Bool :=
  if (!ok1) = true then (s2, false)
  else
    let w2 : Sys × Bool :=
      if (decide (r.1.status ≠ jo.job.status) || r.2.2.2) = true then
        apiUpdateJobStatus s2 (statusBase s2 jo (r.1.admissionError ≠ jo.job.admissionError || r.2.1 ≠ jo.finalizer)) { jo with job := r.1 } else (s2, true)
    if (!w2.2) = true then (w2.1, false) else (w2.1, r.2.2.1)

theorem oneK2_good (jo : JobObj) (r : Job × Bool × Bool × Bool) (ok1 : Bool) (s : Sys) : Good (oneK2 jo r ok1) s := by
  cases ok1 with
  | false => exact Good.of_eq (fun q' => by unfold oneK2; rfl) (Good.pure (fun _ => false) s (fun _ => rfl))
  | true =>
    by_cases hd : (decide (r.1.status ≠ jo.job.status) || r.2.2.2) = true
    · have hu := apiUpdateJobStatusOn_good jo { jo with job := r.1 } (r.1.admissionError ≠ jo.job.admissionError || r.2.1 ≠ jo.finalizer) s
      let m : Sys → Bool → Bool := fun _ ok2 => if (!ok2) = true then false else r.2.2.1
      have hm := Good.map hu m (fun _ _ _ => rfl)
      refine Good.of_eq (fun q' => ?_) hm
      unfold oneK2
      simp only [hd, if_true, Bool.not_true, Bool.false_eq_true, if_false]
      cases (apiUpdateJobStatus (setQ s q') (statusBase (setQ s q') jo (r.1.admissionError ≠ jo.job.admissionError || r.2.1 ≠ jo.finalizer)) { jo with job := r.1 }).2 <;> rfl
    · refine Good.of_eq (fun q' => ?_) (Good.pure (fun _ => r.2.2.1) s (fun _ => rfl))
      unfold oneK2
      simp only [hd, Bool.not_true, Bool.false_eq_true, if_false]

theorem oneK_good (jo : JobObj) (r : Job × Bool × Bool × Bool) (s : Sys) : Good (oneK jo r) s := by
  by_cases hd : (r.1.admissionError ≠ jo.job.admissionError || r.2.1 ≠ jo.finalizer) = true
  · have hu := apiUpdateJob_good jo { jo with job := r.1, finalizer := r.2.1 } s
    have hb := Good.bind (g := fun t => apiUpdateJob t jo { jo with job := r.1, finalizer := r.2.1 })
      (h := oneK2 jo r) hu (oneK2_good jo r _ _)
    refine Good.of_eq (fun q' => ?_) hb
    unfold oneK oneK2
    simp only [hd, if_true]
  · refine Good.of_eq (fun q' => ?_) (oneK2_good jo r true s)
    unfold oneK oneK2
    simp only [hd, Bool.false_eq_true, ↓reduceIte, if_false]

theorem syncOne_good (s : Sys) : Good syncOne s := by
  cases hc : s.jobCache with
  | none =>
    refine Good.of_eq (fun q' => ?_) (Good.pure (fun _ => true) s (fun _ => rfl))
    exact syncOne_frame (setQ s q') hc
  | some jo =>
    have hb := Good.bind (g := fun t => sync t jo) (h := oneK jo) (sync_good jo s) (oneK_good jo _ _)
    exact Good.of_eq (fun q' => syncOne_eqK (setQ s q') jo hc) hb

end Furiko.Conv
