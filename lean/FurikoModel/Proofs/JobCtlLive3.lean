/-
Liveness of the job controller, part 3: pods as tasks (`PodTask`) and the lookups of a reconcile
pass in a FRESH state — both informer caches equal to the server, no watch event undelivered, no fault
pending: `getTaskForRef` is then the plain lookup of the ref's name on the server.  Core Lean only.
-/
import FurikoModel.Proofs.JobCtlLive2
import FurikoModel.Proofs.JobCtlInvOwned

set_option linter.unusedSimpArgs false
set_option linter.unusedVariables false

namespace Furiko.JobCtl.Live
open Furiko Furiko.JobCtl Furiko.WQ Furiko.StatusLemmas Furiko.JobCtlPlan

/-! ### pods as tasks -/

/-- `PodTask.GetTaskRef` does not panic on this pod whatever its phase: a pod whose status reason is
`DeadlineExceeded` with an active deadline carries a start time -/
def NoPanic (p : PodObj) : Prop :=
  (p.pod.statusReason == reasonDeadlineExceeded && p.pod.activeDeadlineSeconds.isSome) = true →
    p.pod.startTime.isSome = true

theorem podTask_of_noPanic {now : Time} {p : PodObj} (h : NoPanic p) : ∃ t, podTask now p = some t := by
  unfold podTask Pod.task Pod.taskRef
  have : ∃ fin, p.pod.finishTimestamp = some fin := by
    unfold Pod.finishTimestamp
    by_cases hf : p.pod.isFinished = true
    · simp only [hf, Bool.not_true, Bool.false_eq_true, ↓reduceIte]
      cases containerTerminateTime p.pod with
      | some t => exact ⟨_, rfl⟩
      | none =>
        simp only
        by_cases hd : (p.pod.statusReason == reasonDeadlineExceeded && p.pod.activeDeadlineSeconds.isSome) = true
        · rw [if_pos hd]
          have := h hd
          cases hs : p.pod.startTime with
          | none => rw [hs] at this; cases this
          | some st => exact ⟨_, rfl⟩
        · rw [if_neg hd]
          cases p.pod.startTime <;> exact ⟨_, rfl⟩
    · simp only [hf, Bool.not_false, ↓reduceIte]
      exact ⟨_, rfl⟩
  obtain ⟨fin, hfin⟩ := this
  simp only [hfin]
  exact ⟨_, rfl⟩

/-- what a pod reports as a task -/
theorem podTask_fields {now : Time} {p : PodObj} {t : Task} (h : podTask now p = some t) :
    t.name = p.pod.name ∧ t.deletionTimestamp = p.pod.deletionTimestamp ∧
    t.ref.creationTimestamp = p.pod.creationTimestamp ∧ t.ref.runningTimestamp = p.pod.runningTimestamp ∧
    t.ref.status.result = p.pod.result ∧ t.ref.status.state = p.pod.state ∧ t.ref.deletedStatus = none ∧
    (p.pod.isFinished = false → t.ref.finishTimestamp = none) := by
  unfold podTask Pod.task at h
  cases hr : p.pod.taskRef now with
  | none => simp [hr] at h
  | some r =>
    simp only [hr, Option.some.injEq] at h
    subst h
    unfold Pod.taskRef at hr
    cases hf : p.pod.finishTimestamp with
    | none => simp [hf] at hr
    | some fin =>
      simp only [hf, Option.some.injEq] at hr
      subst hr
      refine ⟨rfl, rfl, rfl, rfl, rfl, rfl, rfl, ?_⟩
      intro hnf
      unfold Pod.finishTimestamp at hf
      simp only [hnf, Bool.not_false, ↓reduceIte, Option.some.injEq] at hf
      subst hf
      exact Pod.recordedFinish_none now p.pod

theorem podTask_finished {now : Time} {p : PodObj} {t : Task} (hc : p.pod.creationTimestamp.isSome = true)
    (h : podTask now p = some t) (hf : p.pod.isFinished = true) : t.ref.finishTimestamp.isSome = true := by
  unfold podTask Pod.task at h
  cases hr : p.pod.taskRef now with
  | none => simp [hr] at h
  | some r =>
    simp only [hr, Option.some.injEq] at h
    subst h
    unfold Pod.taskRef at hr
    cases hfin : p.pod.finishTimestamp with
    | none => simp [hfin] at hr
    | some fin =>
      simp only [hfin, Option.some.injEq] at hr
      subst hr
      show (Pod.recordedFinish now p.pod fin).isSome = true
      rw [Pod.recordedFinish_isSome]
      unfold Pod.finishTimestamp at hfin
      simp only [hf, Bool.not_true, Bool.false_eq_true, ↓reduceIte] at hfin
      split at hfin
      · simp only [Option.some.injEq] at hfin; subst hfin; rfl
      · split at hfin
        · split at hfin
          · simp only [Option.some.injEq] at hfin; subst hfin; rfl
          · cases hfin
        · split at hfin
          · simp only [Option.some.injEq] at hfin; subst hfin; rfl
          · simp only [Option.some.injEq] at hfin; subst hfin; exact hc

/-- the finish time of a pod's task: what `GetFinishTimestamp` gives, as `GetTaskRef` records it -/
theorem podTask_finish {now : Time} {p : PodObj} {t : Task} (h : podTask now p = some t) :
    ∃ fin, p.pod.finishTimestamp = some fin ∧ t.ref.finishTimestamp = p.pod.recordedFinish now fin := by
  unfold podTask Pod.task at h
  cases hr : p.pod.taskRef now with
  | none => simp [hr] at h
  | some r =>
    simp only [hr, Option.some.injEq] at h
    subst h
    unfold Pod.taskRef at hr
    cases hf : p.pod.finishTimestamp with
    | none => simp [hf] at hr
    | some fin =>
      simp only [hf, Option.some.injEq] at hr
      subst hr
      exact ⟨fin, rfl, rfl⟩

/-- a lower bound of the clock and of what the pod reports bounds the recorded finish time -/
theorem podTask_finish_lb {now : Time} {p : PodObj} {t : Task} {F0 : Int} (h : podTask now p = some t)
    (hn : F0 ≤ now) (hp : ∀ f, p.pod.finishTimestamp = some (some f) → F0 ≤ f) :
    ∀ f, t.ref.finishTimestamp = some f → F0 ≤ f := by
  intro f hf
  obtain ⟨fin, h1, h2⟩ := podTask_finish h
  rw [h2] at hf
  rcases Pod.recordedFinish_some hf with e | e
  · exact hp f (by rw [h1, e])
  · rw [e]; exact hn

/-- two readings of one pod at different clocks (`TaskSim`): a finished pod that does not tell when it
finished is recorded with the clock of the reading -/
theorem podTask_sim (c c' : Time) (p : PodObj) : OptSim (podTask c p) (podTask c' p) := by
  unfold podTask Pod.task Pod.taskRef
  cases hf : p.pod.finishTimestamp with
  | none => trivial
  | some fin =>
    simp only
    unfold OptSim TaskSim Pod.recordedFinish
    by_cases hcnd : (fin.isSome && !p.pod.hasFinishTimestamp) = true
    · simp only [hcnd, if_true]
      exact Or.inr ⟨rfl, c', rfl⟩
    · simp only [hcnd, if_false]
      exact Or.inl rfl

/-! ### fresh states -/

/-- nothing is in flight: both caches equal the server, no undelivered watch event, no fault queued -/
structure Fresh (jo : JobObj) (s : Sys) : Prop where
  jobCache : s.jobCache = some jo
  job : s.job = some jo
  podCache : s.podCache = s.pods
  jobEvs : s.jobEvs = []
  podEvs : s.podEvs = []
  faults : s.faults = []

/-- every pod on the server is a task of the Job in good shape: controlled by and labelled with the
Job, no panic shape, creation time set, not being deleted; names pairwise distinct -/
structure PodsOK (jo : JobObj) (s : Sys) : Prop where
  owned : ∀ p ∈ s.pods, p.ownerUid = some jo.uid ∧ p.ownerName = some jo.name ∧ p.jobLabel = some jo.uid
  sane : ∀ p ∈ s.pods, NoPanic p ∧ p.pod.creationTimestamp.isSome = true
  nodel : ∀ p ∈ s.pods, p.pod.deletionTimestamp = none
  nodup : (podNames s.pods).Nodup

/-- the task of that name on the server -/
def lookTask (s : Sys) (n : String) : Option Task := (findPod s.pods n).bind (podTask s.clock)

theorem lookTask_some {s : Sys} {n : String} {t : Task} (h : lookTask s n = some t) :
    ∃ p, findPod s.pods n = some p ∧ podTask s.clock p = some t := by
  unfold lookTask at h
  cases hp : findPod s.pods n with
  | none => simp [hp] at h
  | some p => exact ⟨p, rfl, by simpa [hp] using h⟩

/-- the lookups of two states with the same pods, whatever their clocks -/
theorem lookTask_sim {s s' : Sys} (hp : s'.pods = s.pods) (n : String) : OptSim (lookTask s n) (lookTask s' n) := by
  unfold lookTask
  rw [hp]
  cases findPod s.pods n with
  | none => trivial
  | some p => exact podTask_sim s.clock s'.clock p

theorem lookTask_name {s : Sys} {n : String} {t : Task} (h : lookTask s n = some t) : t.name = n := by
  obtain ⟨p, hp, ht⟩ := lookTask_some h
  rw [(podTask_ok ht).2, (findPod_some hp).2]

/-- in a fresh state whose pods are all the Job's, `getTaskForRef` is the plain lookup -/
theorem getTaskForRef_fresh {jo : JobObj} {s : Sys} (hc : s.podCache = s.pods)
    (hown : ∀ p ∈ s.pods, p.ownerUid = some jo.uid) (r : TaskRef) :
    getTaskForRef s jo r = lookTask s r.name := by
  unfold getTaskForRef lookTask liveGetTask isControlledByJob
  rw [hc]
  cases hp : findPod s.pods r.name with
  | none =>
    simp only [Option.bind_none]
    split <;> rfl
  | some p =>
    have ho := hown p (findPod_some hp).1
    simp only [ho, decide_true, Bool.not_true, Bool.false_eq_true, ↓reduceIte, Option.bind_some]
    cases ht : podTask s.clock p with
    | none => rfl
    | some t =>
      simp only
      split <;> rfl

theorem tasksForRefs_fresh {jo : JobObj} {s : Sys} (hc : s.podCache = s.pods)
    (hown : ∀ p ∈ s.pods, p.ownerUid = some jo.uid) (refs : List TaskRef) :
    tasksForRefs s jo refs = refs.filterMap (fun r => lookTask s r.name) := by
  unfold tasksForRefs
  congr 1
  funext r
  exact getTaskForRef_fresh hc hown r

/-- the task of a name in the list of tasks found for a ref list with pairwise distinct names -/
theorem findTask_filterMap (look : String → Option Task) (hl : ∀ n t, look n = some t → t.name = n) :
    ∀ (refs : List TaskRef), (refs.map (·.name)).Nodup → ∀ n,
      findTask (refs.filterMap (fun r => look r.name)) n = if n ∈ refs.map (·.name) then look n else none
  | [], _, n => by simp [findTask]
  | r :: rest, hnd, n => by
    simp only [List.map_cons, List.nodup_cons] at hnd
    have ih := findTask_filterMap look hl rest hnd.2 n
    rw [List.filterMap_cons]
    cases hr : look r.name with
    | none =>
      simp only
      rw [ih]
      by_cases hn : n = r.name
      · subst hn
        simp [hnd.1, hr]
      · have : (n ∈ (r :: rest).map (·.name)) ↔ n ∈ rest.map (·.name) := by
          simp only [List.map_cons, List.mem_cons]
          constructor
          · rintro (h | h)
            · exact absurd h hn
            · exact h
          · exact Or.inr
        simp only [this]
    | some t =>
      have htn := hl _ _ hr
      simp only
      unfold findTask at ih ⊢
      rw [List.find?_cons]
      by_cases hn : n = r.name
      · subst hn
        simp [htn, hr]
      · have hne : (t.name == n) = false := by rw [htn]; simpa using fun e => hn e.symm
        rw [hne, ih]
        have : (n ∈ (r :: rest).map (·.name)) ↔ n ∈ rest.map (·.name) := by
          simp only [List.map_cons, List.mem_cons]
          constructor
          · rintro (h | h)
            · exact absurd h hn
            · exact h
          · exact Or.inr
        simp only [this]

end Furiko.JobCtl.Live
