/-
Liveness of the job controller, part 12: the environment half of a fair round keeps the invariant:
`deliverAll ; sweep ; deliverAll` finishes every pod and leaves both caches fresh (`env_stage`), `jump`
makes every armed timer due (`jump_stage`).  Core Lean only.
-/
import FurikoModel.Proofs.JobCtlLive11

set_option linter.unusedSimpArgs false
set_option linter.unusedVariables false

namespace Furiko.JobCtl.Live
open Furiko Furiko.JobCtl Furiko.WQ Furiko.StatusLemmas Furiko.JobCtlPlan Furiko.Conv Furiko.ParallelLemmas

theorem sweepPod_fields (orc : String → Outcome) (p : PodObj) :
    (sweepPod orc p).ownerUid = p.ownerUid ∧ (sweepPod orc p).ownerName = p.ownerName ∧
    (sweepPod orc p).jobLabel = p.jobLabel ∧ (sweepPod orc p).pod.creationTimestamp = p.pod.creationTimestamp ∧
    (sweepPod orc p).pod.deletionTimestamp = p.pod.deletionTimestamp ∧
    (sweepPod orc p).pod.statusReason = p.pod.statusReason ∧
    (sweepPod orc p).pod.activeDeadlineSeconds = p.pod.activeDeadlineSeconds ∧
    (sweepPod orc p).pod.startTime = p.pod.startTime := by
  unfold sweepPod finishPod
  split <;> exact ⟨rfl, rfl, rfl, rfl, rfl, rfl, rfl, rfl⟩

theorem podNames_sweep (orc : String → Outcome) (l : List PodObj) : podNames (l.map (sweepPod orc)) = podNames l := by
  unfold podNames
  rw [List.map_map]
  apply List.map_congr_left
  intro p _
  exact sweepPod_name orc p

theorem nowT_mono {s s' : Sys} (h : s.clock ≤ s'.clock) : nowT s ≤ nowT s' := by
  unfold nowT nowSec secs nsPerSec
  have : s.clock / 1000000000 ≤ s'.clock / 1000000000 := Int.ediv_le_ediv (by decide) h
  exact Int.mul_le_mul_of_nonneg_right this (by decide)

/-- the state of the environment half of a round, before the clock jump -/
def envState (orc : String → Outcome) (s : Sys) : Sys := deliverAll (sweep orc (deliverAll s))

section
variable {ok : Sys → Action → Prop} {j0 jo : JobObj} {F0 : Int} {s : Sys}

/-- **the environment half of a round** keeps the invariant, finishes every pod and touches nothing else
on the server; ready keys and timers of the work queue are kept -/
theorem env_stage (hok : ∀ s a, fairEnv s a → ok s a) (orc : String → Outcome) (h : Canon ok j0 jo F0 s) :
    Canon ok j0 jo F0 (envState orc s) ∧ (∀ p ∈ (envState orc s).pods, p.pod.isFinished = true) ∧
    (envState orc s).pods = s.pods.map (sweepPod orc) ∧ (envState orc s).clock = s.clock ∧
    (envState orc s).d = s.d ∧ (envState orc s).cfg = s.cfg ∧ (envState orc s).rv ≥ 0 ∧
    QGrow s.q (envState orc s).q := by
  have hidle : deliverAll s = s := deliverAll_idle s h.fresh.jobEvs h.fresh.podEvs
  have hps : PSync s := by unfold PSync; rw [h.fresh.podEvs, h.fresh.podCache]; rfl
  obtain ⟨w1, w2, w3, w4, w5, w6, w7, w8, w9, w10, w11⟩ := sweep_spec orc s h.pods.nodup
  have hjs : JSync (sweep orc s) := by
    unfold JSync; rw [w3, w4, w2, h.fresh.jobEvs, h.fresh.jobCache, h.fresh.job]; rfl
  obtain ⟨d1, d2, d3, d4, d5, d6⟩ := deliverAll_spec (sweep orc s) (w11 hps) hjs
  have he : envState orc s = deliverAll (sweep orc s) := by unfold envState; rw [hidle]
  have hpods : (envState orc s).pods = s.pods.map (sweepPod orc) := by rw [he, d5.pods, w1]
  have hd : (envState orc s).d = s.d := by rw [he, d5.d, w7]
  have hclock : (envState orc s).clock = s.clock := by rw [he, d5.clock, w6]
  have hjob : (envState orc s).job = some jo := by rw [he, d5.job, w2]; exact h.fresh.job
  have hq : QGrow s.q (envState orc s).q := by rw [he]; rw [← w10]; exact d6
  have hsteps : Steps ok j0 s (envState orc s) := by
    unfold envState
    have hj : ∀ s, ok s .deliverJob := fun s => hok s _ trivial
    have hp : ∀ s, ok s .deliverPod := fun s => hok s _ trivial
    have hk : ∀ s p, ok s (.kubelet p) := fun s p => hok s _ trivial
    exact deliverAll_steps hj hp s _ (sweep_steps hk orc s _ (deliverAll_steps hj hp s _ (.refl s)))
  refine ⟨⟨h.reach.steps hsteps, by rw [hd]; exact h.nodash, ?_, h.spec, h.npos, ?_, hq.wf h.wf, h.retries, ?_, ?_,
    h.lbRefs, ?_⟩, ?_, hpods, hclock, hd, by rw [he, d5.cfg, w8], Nat.zero_le _, hq⟩
  · -- fresh
    refine ⟨by rw [he, d3, w2]; exact h.fresh.job, hjob, by rw [he, d4, d5.pods], by rw [he]; exact d1,
      by rw [he]; exact d2, by rw [he, d5.faults, w9]; exact h.fresh.faults⟩
  · -- pods
    refine ⟨?_, ?_, ?_, ?_⟩
    · intro p hp
      rw [hpods] at hp
      obtain ⟨p0, hp0, rfl⟩ := List.mem_map.mp hp
      obtain ⟨f1, f2, f3, _⟩ := sweepPod_fields orc p0
      rw [f1, f2, f3]; exact h.pods.owned p0 hp0
    · intro p hp
      rw [hpods] at hp
      obtain ⟨p0, hp0, rfl⟩ := List.mem_map.mp hp
      obtain ⟨_, _, _, f4, _, f6, f7, f8⟩ := sweepPod_fields orc p0
      refine ⟨?_, by rw [f4]; exact (h.pods.sane p0 hp0).2⟩
      unfold NoPanic
      rw [f6, f7, f8]
      exact (h.pods.sane p0 hp0).1
    · intro p hp
      rw [hpods] at hp
      obtain ⟨p0, hp0, rfl⟩ := List.mem_map.mp hp
      rw [(sweepPod_fields orc p0).2.2.2.2.1]; exact h.pods.nodel p0 hp0
    · rw [hpods, podNames_sweep]; exact h.pods.nodup
  · -- unrecorded pods
    intro p hp
    rw [hpods] at hp
    obtain ⟨p0, hp0, rfl⟩ := List.mem_map.mp hp
    rw [sweepPod_name, hd]
    exact h.unrec p0 hp0
  · -- clock lower bound
    have : nowT (envState orc s) = nowT s := by unfold nowT nowSec; rw [hclock]
    rw [this]; exact h.lbClock
  · intro p hp
    rw [hpods] at hp
    obtain ⟨p0, hp0, rfl⟩ := List.mem_map.mp hp
    exact podFinLB_sweep orc (h.lbPods p0 hp0)
  · intro p hp
    rw [hpods] at hp
    obtain ⟨p0, _, rfl⟩ := List.mem_map.mp hp
    exact sweepPod_finished orc p0

/-- **the clock jump** keeps the invariant; afterwards every armed timer of an unfinished Job is due -/
theorem jump_stage (hok : ∀ s a, fairEnv s a → ok s a) (h : Canon ok j0 jo F0 s) :
    Canon ok j0 jo F0 (jump s) ∧ (jump s).pods = s.pods ∧ (jump s).q = s.q ∧ (jump s).d = s.d ∧
    (jump s).cfg = s.cfg ∧ s.clock ≤ (jump s).clock ∧
    (jo.job.status.condition.finished = none → ∀ x ∈ s.q.delayed, x.2 ≤ (jump s).clock) ∧
    (jo.job.status.condition.finished.isSome = true → jump s = s) := by
  have hun : jobUnfinished s = jo.job.status.condition.finished.isNone := by
    unfold jobUnfinished; rw [h.fresh.job]
  have hge := maxDl_ge s.q.delayed s.clock
  have hsteps : Steps ok j0 s (jump s) := jump_steps (fun s d => hok s _ trivial) s s (.refl s)
  rw [jump_eq]
  cases hf : jo.job.status.condition.finished with
  | some f =>
    have : jobUnfinished s = false := by rw [hun, hf]; rfl
    rw [this]
    exact ⟨h, rfl, rfl, rfl, rfl, Int.le_refl _, (fun hx => by cases hx), fun _ => rfl⟩
  | none =>
    have hu : jobUnfinished s = true := by rw [hun, hf]; rfl
    have hreach : Reach ok j0 ({ s with clock := maxDl s.q.delayed s.clock } : Sys) := by
      have := h.reach.steps hsteps
      rw [jump_eq, hu] at this
      exact this
    rw [hu]
    refine ⟨⟨hreach, h.nodash, ⟨h.fresh.jobCache, h.fresh.job, h.fresh.podCache, h.fresh.jobEvs, h.fresh.podEvs,
      h.fresh.faults⟩, h.spec, h.npos, ⟨h.pods.owned, h.pods.sane, h.pods.nodel, h.pods.nodup⟩, h.wf, h.retries,
      h.unrec, ?_, h.lbRefs, h.lbPods⟩, rfl, rfl, rfl, rfl, hge.1, fun _ => hge.2, (fun hx => by cases hx)⟩
    exact Int.le_trans h.lbClock (nowT_mono (s' := { s with clock := maxDl s.q.delayed s.clock }) hge.1)

end

end Furiko.JobCtl.Live
