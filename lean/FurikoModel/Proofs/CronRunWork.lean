/-
Several ticks of `work` (empty channel, unchanged lister) and their key-wise projection onto the
abstract run of Proofs/CronRun.lean.
-/
import FurikoModel.Proofs.CronKey
import FurikoModel.Proofs.CronRun

namespace Furiko.Cron
open Furiko

/-- run ticks at the reference times `ts` (ns); returns the final worker, the
per-tick request lists, and whether every tick's pop loop ended by itself. -/
def runTicks (cap : Int) (flushLimit fuel : Nat) :
    Worker → List Int → Worker × List (List (String × Int)) × Bool
  | w, [] => (w, [], true)
  | w, now :: rest =>
    ((runTicks cap flushLimit fuel (work w now cap flushLimit fuel).1 rest).1,
     (work w now cap flushLimit fuel).2.1 ::
       (runTicks cap flushLimit fuel (work w now cap flushLimit fuel).1 rest).2.1,
     (work w now cap flushLimit fuel).2.2 &&
       (runTicks cap flushLimit fuel (work w now cap flushLimit fuel).1 rest).2.2)

theorem outk_flatten (ls : List (List (String × Int))) (k : String) :
    outk ls.flatten k = (ls.map (fun l => outk l k)).flatten := by
  induction ls with
  | nil => rfl
  | cons a t ih => simp [outk_append, ih]

/-- one tick of a well-formed key, as the abstract tick functions -/
theorem work_key_tick {w : Worker} {now : Int} {cap : Int} (flushLimit fuel : Nat)
    (hInv : Heap.Inv w.heap) (hL : ListerOK w.lister) (hchan : w.chan = [])
    (hdone : (work w now cap flushLimit fuel).2.2 = true)
    {k : String} {jc : JC} (hlk : lookup w.lister k = some jc) (hact : jc.Active) :
    outk (work w now cap flushLimit fuel).2.1 k
      = tickOut jc.nextAfter (floorSec now) cap.toNat (Heap.search w.heap k) ∧
    Heap.search (work w now cap flushLimit fuel).1.heap k
      = tickEnt jc.nextAfter (floorSec now) (Heap.search w.heap k) := by
  cases he : Heap.search w.heap k with
  | none =>
    have := work_key_absent (now := now) (cap := cap) flushLimit fuel hInv hL hchan he
    exact ⟨by rw [this.1]; simp [tickOut, rem], by rw [this.2]; rfl⟩
  | some e =>
    have h1 := (work_key_stream_lemma flushLimit fuel hInv hL hchan hdone hlk hact he).1
    refine ⟨h1, ?_⟩
    simp only [tickEnt]
    by_cases hdue : e ≤ floorSec now
    · rw [if_pos hdue]
      exact work_key_entry_due flushLimit fuel hInv hL hchan hdone hlk hact he hdue
    · rw [if_neg hdue]
      exact work_key_entry_not_due flushLimit fuel hInv hL hchan hdone hlk hact he (by omega)

theorem runTicks_inv (cap : Int) (flushLimit fuel : Nat) :
    ∀ (ts : List Int) (w : Worker), Heap.Inv w.heap → ListerOK w.lister → w.chan = [] →
      Heap.Inv (runTicks cap flushLimit fuel w ts).1.heap ∧
      (runTicks cap flushLimit fuel w ts).1.lister = w.lister ∧
      (runTicks cap flushLimit fuel w ts).1.chan = [] ∧
      (runTicks cap flushLimit fuel w ts).2.1.length = ts.length := by
  intro ts
  induction ts with
  | nil => intro w h1 _ h3; exact ⟨h1, rfl, h3, rfl⟩
  | cons now rest ih =>
    intro w h1 h2 h3
    have a := work_inv (now := now) (cap := cap) flushLimit fuel h1 h2 h3
    have b := ih _ a.1 (a.2.1 ▸ h2) a.2.2
    simp only [runTicks, List.length_cons]
    exact ⟨b.1, b.2.1.trans a.2.1, b.2.2.1, by rw [b.2.2.2]⟩

/-- the key-wise projection of a run is the abstract run -/
theorem runTicks_key (cap : Int) (flushLimit fuel : Nat) {k : String} {jc : JC}
    (hact : jc.Active) :
    ∀ (ts : List Int) (w : Worker), Heap.Inv w.heap → ListerOK w.lister → w.chan = [] →
      lookup w.lister k = some jc → (runTicks cap flushLimit fuel w ts).2.2 = true →
      (runTicks cap flushLimit fuel w ts).2.1.map (fun l => outk l k)
        = (keyRun jc.nextAfter cap.toNat (Heap.search w.heap k) (ts.map floorSec)).1 ∧
      Heap.search (runTicks cap flushLimit fuel w ts).1.heap k
        = (keyRun jc.nextAfter cap.toNat (Heap.search w.heap k) (ts.map floorSec)).2 := by
  intro ts
  induction ts with
  | nil => intro w _ _ _ _ _; exact ⟨rfl, rfl⟩
  | cons now rest ih =>
    intro w h1 h2 h3 hlk hdone
    simp only [runTicks, Bool.and_eq_true] at hdone
    have a := work_inv (now := now) (cap := cap) flushLimit fuel h1 h2 h3
    have t := work_key_tick flushLimit fuel h1 h2 h3 hdone.1 hlk hact
    have b := ih _ a.1 (a.2.1 ▸ h2) a.2.2 (a.2.1 ▸ hlk) hdone.2
    simp only [runTicks, List.map_cons, keyRun]
    rw [b.1, b.2, t.1, t.2]
    exact ⟨rfl, rfl⟩

/-- nothing is requested before its tick's clock reading (all keys) -/
theorem runTicks_arrived (cap : Int) (flushLimit fuel : Nat) :
    ∀ (ts : List Int) (w : Worker), Heap.Inv w.heap → ListerOK w.lister → w.chan = [] →
      ∀ p ∈ List.zip ts (runTicks cap flushLimit fuel w ts).2.1,
        ∀ q ∈ p.2, q.2 * 1000000000 ≤ p.1 := by
  intro ts
  induction ts with
  | nil => intro w _ _ _ p hp; simp [runTicks] at hp
  | cons now rest ih =>
    intro w h1 h2 h3 p hp
    have a := work_inv (now := now) (cap := cap) flushLimit fuel h1 h2 h3
    simp only [runTicks, List.zip_cons_cons, List.mem_cons] at hp
    rcases hp with rfl | hp
    · intro q hq
      have := work_out_arrived (now := now) (cap := cap) flushLimit fuel h1 h2 h3 q.1 q.2
        (mem_outk.2 hq)
      exact (le_floorSec_iff _ _).1 this
    · exact ih _ a.1 (a.2.1 ▸ h2) a.2.2 p hp

/-- `e` is the first matching in-window time after `lo` -/
def EntryOK (jc : JC) (lo e : Int) : Prop :=
  jc.M' e ∧ lo < e ∧ ∀ u, jc.M' u → ¬ (lo < u ∧ u < e)

theorem nextAt_entryOK {jc : JC} {ref : Int} {ent : Option Int} (h : NextAt jc.M' ref ent) :
    (∀ e', ent = some e' → EntryOK jc ref e') ∧ (ent = none → ∀ u, jc.M' u → u ≤ ref) := by
  refine ⟨fun e' he' => ?_, h.2⟩
  have a := h.1 e' he'
  exact ⟨a.2.1, a.1, fun u hu hlt => by have := a.2.2 u hu hlt.1; omega⟩

/-- the stream of a well-formed key over a run of non-decreasing ticks: invariant and
completeness in terms of the abstract run -/
theorem run_stream_inv (cap : Int) (flushLimit fuel : Nat) {w : Worker} {k : String} {jc : JC}
    (hInv : Heap.Inv w.heap) (hL : ListerOK w.lister) (hchan : w.chan = [])
    (hlk : lookup w.lister k = some jc) (hact : jc.Active) {e0 : Int}
    (he : Heap.search w.heap k = some e0) (ts : List Int) (hts : List.Pairwise (· ≤ ·) ts)
    (hdone : (runTicks cap flushLimit fuel w ts).2.2 = true) :
    outk (runTicks cap flushLimit fuel w ts).2.1.flatten k
      = (keyRun jc.nextAfter cap.toNat (some e0) (ts.map floorSec)).1.flatten ∧
    RunInv jc.M' e0 ((ts.map floorSec).getLast?.getD (e0 - 1))
      (Heap.search (runTicks cap flushLimit fuel w ts).1.heap k)
      (outk (runTicks cap flushLimit fuel w ts).2.1.flatten k) ∧
    (NoCapHit jc.nextAfter cap.toNat (some e0) (ts.map floorSec) →
      RunComplete jc.M' e0 ((ts.map floorSec).getLast?.getD (e0 - 1))
        (outk (runTicks cap flushLimit fuel w ts).2.1.flatten k)) := by
  have hsp := JC.nextAfter_spec (lookup_ok hL hlk).2
  have hk := runTicks_key cap flushLimit fuel (k := k) hact ts w hInv hL hchan hlk hdone
  rw [he] at hk
  have hstream : outk (runTicks cap flushLimit fuel w ts).2.1.flatten k
      = (keyRun jc.nextAfter cap.toNat (some e0) (ts.map floorSec)).1.flatten := by
    rw [outk_flatten, hk.1]
  have hrun := keyRun_inv hsp cap.toNat e0 (ts.map floorSec) (e0 - 1) (some e0) []
    (runInv_init _ e0)
    (by
      rw [List.pairwise_map]
      exact List.Pairwise.imp (fun h => floorSec_mono h) hts)
    (fun h => by omega)
  simp only [List.nil_append] at hrun
  rw [hstream, hk.2]
  exact ⟨rfl, hrun.1, fun hno => hrun.2 (runComplete_init _ e0) hno⟩

end Furiko.Cron
