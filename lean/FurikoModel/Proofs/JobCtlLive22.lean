/-
Liveness of the job controller, part 22: ONE FAIR ROUND on an unfinished simple Job keeps the invariant
and either finishes the Job (`Done`) or decreases the variant (`round_busy`); hence at most `mu` rounds
reach a final state (`rounds_converge`).  Core Lean only.
-/
import FurikoModel.Proofs.JobCtlLive21

set_option linter.unusedSimpArgs false
set_option linter.unusedVariables false

namespace Furiko.JobCtl.Live
open Furiko Furiko.JobCtl Furiko.WQ Furiko.StatusLemmas Furiko.JobCtlPlan Furiko.Conv Furiko.ParallelLemmas

theorem work_clock (s : Sys) : (work s).1.clock = s.clock := by
  cases hg : (s.q.advance s.clock).get with
  | none => rw [work_none s hg]
  | some v =>
    obtain ⟨k, q1⟩ := v
    rw [work_some s k q1 hg]
    obtain ⟨l, hk⟩ := (syncOne_good (passStart s q1)).kept
    exact hk.clock

theorem deliverAll_clock (s : Sys) : (deliverAll s).clock = s.clock := by
  unfold deliverAll
  have h1 := (iter_deliverJob s.jobEvs.length s rfl).2.1
  have h2 := (iter_deliverPod s.podEvs.length (iter .deliverJob s.jobEvs.length s)
    (by rw [(iter_deliverJob s.jobEvs.length s rfl).2.2.2.2.1])).2.1
  rw [h2.clock, h1.clock]

/-- the clock of a round is the clock after its jump -/
theorem round_clock (orc : String → Outcome) (s : Sys) : (round orc s).clock = (jump (envState orc s)).clock := by
  show (deliverAll (work (jump (envState orc s))).1).clock = _
  rw [deliverAll_clock, work_clock]

section
variable {ok : Sys → Action → Prop} {j0 jo : JobObj} {F0 : Int} {s : Sys}

/-- the variant read at pass time is at most the variant of the round's first state -/
theorem muP_le (e : Sys) (hd : e.d = s.d) (hclk : s.clock ≤ e.clock) (hdue : ∀ x ∈ s.q.delayed, x.2 ≤ e.clock) :
    muP jo e ≤ mu jo s := by
  unfold muP mu
  rw [hd]
  split
  · have : dueOrArmed s (theReq s.d jo.job).earliest = true → DueReq e.clock (theReq s.d jo.job).earliest := by
      intro hx
      unfold dueOrArmed at hx
      rcases Bool.or_eq_true _ _ |>.mp hx with h1 | h1
      · have h1' : DueReq s.clock (theReq s.d jo.job).earliest := by simpa using h1
        rcases h1' with hz | hle
        · exact Or.inl hz
        · exact Or.inr (Int.le_trans hle hclk)
      · obtain ⟨x, hx, hle⟩ := List.any_eq_true.mp h1
        have hle' : (theReq s.d jo.job).earliest ≤ x.2 := by simpa using hle
        exact Or.inr (Int.le_trans hle' (hdue x hx))
    by_cases hda : dueOrArmed s (theReq s.d jo.job).earliest = true
    · simp only [hda, this hda, ↓reduceIte]
      exact Nat.le_refl _
    · have hda' : dueOrArmed s (theReq s.d jo.job).earliest = false := by simpa using hda
      simp only [hda', Bool.false_eq_true, ↓reduceIte]
      split <;> omega
  · exact Nat.le_refl _

/-- **one fair round on an unfinished Job**: the invariant is kept, and either the Job is finished and the
state final, or the Job is still unfinished and the variant has gone down -/
theorem round_busy (hok : ∀ s a, fairEnv s a → ok s a) (orc : String → Outcome) (h : Canon ok j0 jo F0 s)
    (hb : Busy jo s) (hT : (round orc s).clock < F0 + getTTLAfterFinished jo.job s.cfg) :
    ∃ jo', jo'.name = jo.name ∧ Canon ok j0 jo' F0 (round orc s) ∧
      ((Busy jo' (round orc s) ∧ mu jo' (round orc s) < mu jo s) ∨ Done jo' (round orc s)) ∧
      jo'.job.ttlSecondsAfterFinished = jo.job.ttlSecondsAfterFinished ∧ (round orc s).cfg = s.cfg ∧
      RefsStep (jump (envState orc s)) jo jo' (round orc s) ∧
      (jump (envState orc s)).pods = s.pods.map (sweepPod orc) ∧ (jump (envState orc s)).d = s.d ∧
      PState ok j0 jo F0 (jump (envState orc s)) := by
  obtain ⟨he, hfin, hpods, hclk0, hd0, hcfg0, _, hqg⟩ := env_stage hok orc h
  obtain ⟨hj, jpods, jq, jd, jcfg, jclk, jdue, _⟩ := jump_stage hok he
  have hps : PState ok j0 jo F0 (jump (envState orc s)) := ⟨hj, by rw [jpods]; exact hfin⟩
  have hdue : ∀ x ∈ s.q.delayed, x.2 ≤ (jump (envState orc s)).clock := by
    intro x hx
    exact jdue hb.unfinished x (by rw [hqg.delayed]; exact hx)
  have hready : Ready (jump (envState orc s)) := by
    refine ⟨by rw [jq, hqg.delayed]; exact hdue, ?_⟩
    rw [jq]
    rcases hb.armed with hq | hdl
    · left
      cases hqq : s.q.queue with
      | nil => exact absurd hqq hq
      | cons x r =>
        have := hqg.mono x (by rw [hqq]; exact List.mem_cons_self)
        intro e; rw [e] at this; cases this
    · right; rw [hqg.delayed]; exact hdl
  obtain ⟨hwf, hdel0, k, rest, hq⟩ := hps.ready hready
  have hround : round orc s = deliverAll (work (jump (envState orc s))).1 := rfl
  have hclockT : (jump (envState orc s)).clock < F0 + getTTLAfterFinished jo.job (jump (envState orc s)).cfg := by
    rw [jcfg, hcfg0, ← round_clock]; exact hT
  have hmu : muP jo (jump (envState orc s)) ≤ mu jo s :=
    muP_le _ (jd.trans hd0) (by rw [← hclk0]; exact jclk) hdue
  have hcfg : (jump (envState orc s)).cfg = s.cfg := jcfg.trans hcfg0
  rw [hround]
  by_cases hcomp : (getParallelTaskSummary (jump (envState orc s)).d jo.job
      (generateTaskRefs (jump (envState orc s)).clock jo.job.status.tasks (foundTasks (jump (envState orc s)) jo))).complete = true
  · obtain ⟨jo', hn, hcan, hdone, _, httl, hc2, hrs⟩ := case_complete hok hps k rest hq hclockT hcomp
    exact ⟨jo', hn, hcan, Or.inr hdone, httl, hc2.trans hcfg, hrs, jpods.trans hpods, jd.trans hd0, hps⟩
  · have hc' : (getParallelTaskSummary (jump (envState orc s)).d jo.job
        (generateTaskRefs (jump (envState orc s)).clock jo.job.status.tasks (foundTasks (jump (envState orc s)) jo))).complete = false := by
      simpa using hcomp
    by_cases hfound : jo.job.status.tasks.any refActiveOrSuccessful = true
    · obtain ⟨jo', hn, hcan, hbusy, hlt, _, httl, hc2, hrs⟩ := case_noreq hok hps k rest hq hclockT hb.shape hc' hfound
      exact ⟨jo', hn, hcan, Or.inl ⟨hbusy, Nat.lt_of_lt_of_le hlt hmu⟩, httl, hc2.trans hcfg, hrs, jpods.trans hpods, jd.trans hd0, hps⟩
    · have hf : jo.job.status.tasks.any refActiveOrSuccessful = false := by simpa using hfound
      by_cases hduereq : DueReq (jump (envState orc s)).clock (theReq (jump (envState orc s)).d jo.job).earliest
      · cases htk : findPod (jump (envState orc s)).pods
            (taskName jo.name (jump (envState orc s)).d.hash jo.job.status.tasks.length) with
        | none =>
          obtain ⟨jo', hn, hcan, hbusy, hlt, _, httl, hc2, hrs⟩ := case_create hok hps k rest hq hclockT hb.shape hc' hf hduereq htk
          exact ⟨jo', hn, hcan, Or.inl ⟨hbusy, Nat.lt_of_lt_of_le hlt hmu⟩, httl, hc2.trans hcfg, hrs, jpods.trans hpods, jd.trans hd0, hps⟩
        | some p =>
          obtain ⟨jo', hn, hcan, hres, _, httl, hc2, hrs⟩ := case_adopt hok hps k rest hq hclockT hb.shape hc' hf hduereq p htk
          refine ⟨jo', hn, hcan, ?_, httl, hc2.trans hcfg, hrs, jpods.trans hpods, jd.trans hd0, hps⟩
          rcases hres with ⟨hbusy, hlt⟩ | hdone
          · exact Or.inl ⟨hbusy, Nat.lt_of_lt_of_le hlt hmu⟩
          · exact Or.inr hdone
      · obtain ⟨jo', hn, hcan, hbusy, hlt, _, httl, hc2, hrs⟩ := case_notdue hok hps k rest hq hdel0 hclockT hb.shape hc' hf hduereq
        exact ⟨jo', hn, hcan, Or.inl ⟨hbusy, Nat.lt_of_lt_of_le hlt hmu⟩, httl, hc2.trans hcfg, hrs, jpods.trans hpods, jd.trans hd0, hps⟩

/-- **fair rounds converge**: from a state of the invariant with an unfinished Job, at most `mu` fair rounds
reach a final state — provided the TTL (counted from the lower bound `F0` on all finish times) has not
elapsed when a round's pass runs.  Any property `P` of (cached Job, state) that a round on an unfinished
Job preserves holds in the final state too. -/
theorem rounds_converge_with (hok : ∀ s a, fairEnv s a → ok s a) (orc : String → Outcome) (P : JobObj → Sys → Prop)
    (hP : ∀ (jo jo' : JobObj) (s : Sys), Canon ok j0 jo F0 s → Busy jo s → P jo s → jo'.name = jo.name →
      Canon ok j0 jo' F0 (round orc s) → RefsStep (jump (envState orc s)) jo jo' (round orc s) →
      (jump (envState orc s)).pods = s.pods.map (sweepPod orc) → (jump (envState orc s)).d = s.d →
      PState ok j0 jo F0 (jump (envState orc s)) → P jo' (round orc s)) :
    ∀ (fuel : Nat) (jo : JobObj) (s : Sys), Canon ok j0 jo F0 s → Busy jo s → P jo s → mu jo s ≤ fuel →
      (∀ k, k < fuel → (roundN orc (k + 1) s).clock < F0 + getTTLAfterFinished jo.job s.cfg) →
      ∃ k, k ≤ mu jo s ∧ 1 ≤ k ∧ ∃ jo', jo'.name = jo.name ∧ Canon ok j0 jo' F0 (roundN orc k s) ∧
        Done jo' (roundN orc k s) ∧ P jo' (roundN orc k s) ∧
        getTTLAfterFinished jo'.job (roundN orc k s).cfg = getTTLAfterFinished jo.job s.cfg
  | 0, jo, s, h, hb, _, hmu, hT => by
    exfalso
    -- the variant of an unfinished Job is positive
    unfold mu at hmu
    split at hmu
    · split at hmu <;> omega
    · omega
  | fuel + 1, jo, s, h, hb, hp, hmu, hT => by
    obtain ⟨jo', hn, hcan, hres, httl, hcfg, hrs, hpods, hd, hps⟩ := round_busy hok orc h hb (hT 0 (Nat.succ_pos _))
    have hp' := hP jo jo' s h hb hp hn hcan hrs hpods hd hps
    have hTTLeq : getTTLAfterFinished jo'.job (round orc s).cfg = getTTLAfterFinished jo.job s.cfg := by
      unfold getTTLAfterFinished; rw [httl, hcfg]
    rcases hres with ⟨hbusy, hlt⟩ | hdone
    · obtain ⟨k, hk, _, jo'', hn'', hcan'', hdone'', hp'', httl''⟩ :=
        rounds_converge_with hok orc P hP fuel jo' (round orc s) hcan hbusy hp' (by omega)
        (by
          intro k hk
          rw [hTTLeq]
          exact hT (k + 1) (by omega))
      exact ⟨k + 1, by omega, by omega, jo'', hn''.trans hn, hcan'', hdone'', hp'', httl''.trans hTTLeq⟩
    · refine ⟨1, ?_, Nat.le_refl _, jo', hn, hcan, hdone, hp', hTTLeq⟩
      unfold mu
      split
      · split <;> omega
      · omega

theorem rounds_converge (hok : ∀ s a, fairEnv s a → ok s a) (orc : String → Outcome)
    (fuel : Nat) (jo : JobObj) (s : Sys) (h : Canon ok j0 jo F0 s) (hb : Busy jo s) (hmu : mu jo s ≤ fuel)
    (hT : ∀ k, k < fuel → (roundN orc (k + 1) s).clock < F0 + getTTLAfterFinished jo.job s.cfg) :
    ∃ k, k ≤ mu jo s ∧ 1 ≤ k ∧ ∃ jo', jo'.name = jo.name ∧ Canon ok j0 jo' F0 (roundN orc k s) ∧ Done jo' (roundN orc k s) := by
  obtain ⟨k, h1, h2, jo', h3, h4, h5, _⟩ := rounds_converge_with hok orc (fun _ _ => True)
    (fun _ _ _ _ _ _ _ _ _ _ _ _ => trivial) fuel jo s h hb trivial hmu hT
  exact ⟨k, h1, h2, jo', h3, h4, h5⟩

end

end Furiko.JobCtl.Live
