/-
Helpers for Props/C20Inst, part 3: one `work` step of the job controller (`Model/JobCtl.lean`) at
the level the convergence schema needs —
* `work_level_kept`   what a pass (faulted or not) leaves untouched on the authoritative Job;
* `work_pods_kept`    every pod that existed still exists or a logged forced delete names it;
* `work_queue_eq`     the work queue after the pass IS `Retry.work` of the retry-loop model, with the
                      pass's deferred adds as `SyncResult.during`;
* `work_nocall_*`     a pass that logged no call changed nothing but the work queue, and a pass on
                      the resulting state — whatever the queue holds — logs no call either.
Core Lean only.
-/
import FurikoModel.Proofs.ConvLemmasJobQ
import FurikoModel.Proofs.JobCtlInvJob
import FurikoModel.Proofs.RetryLemmas
import FurikoModel.Proofs.JobCtlInvExamples

set_option linter.unusedVariables false
set_option linter.unusedSimpArgs false

namespace Furiko.Conv
open Furiko Furiko.JobCtl Furiko.WQ Furiko.Retry

/-! ### the level -/

/-- What a controller pass leaves untouched on the authoritative Job (`a` before, `b` after): the
user-facing spec, the start time, a deletion mark once set (a pass may ADD one: TTL deletion of a
Job that carries the finalizer); the admission-error annotation is only ever added; no task name is
dropped from `status.tasks`. -/
structure LevelKept (a b : Job) : Prop where
  template : b.template = a.template
  kill : b.killTimestamp = a.killTimestamp
  ttl : b.ttlSecondsAfterFinished = a.ttlSecondsAfterFinished
  startPolicy : b.startPolicy = a.startPolicy
  del : a.deletionTimestamp.isSome = true → b.deletionTimestamp = a.deletionTimestamp
  adm : a.admissionError = true → b.admissionError = true
  startTime : b.status.startTime = a.status.startTime
  names : ∀ n ∈ refNames a, n ∈ refNames b

theorem LevelKept.refl (a : Job) : LevelKept a a := ⟨rfl, rfl, rfl, rfl, fun _ => rfl, id, rfl, fun _ h => h⟩

theorem LevelKept.trans {a b c : Job} (h1 : LevelKept a b) (h2 : LevelKept b c) : LevelKept a c :=
  ⟨h2.template.trans h1.template, h2.kill.trans h1.kill, h2.ttl.trans h1.ttl, h2.startPolicy.trans h1.startPolicy,
   fun h => by
     have e1 := h1.del h
     have : b.deletionTimestamp.isSome = true := by rw [e1]; exact h
     rw [h2.del this, e1],
   fun h => h2.adm (h1.adm h), h2.startTime.trans h1.startTime, fun n h => h2.names n (h1.names n h)⟩

theorem LevelKept.of_jobLe {a b : Job} (h : JobLe a b) : LevelKept a b :=
  ⟨h.template, h.kill, h.ttl, h.startPolicy, fun _ => h.del, h.adm, h.startTime, h.names⟩

/-- the moves of the authoritative Job during any step other than a user `kill` keep the level -/
theorem jobMoves_level {s0 : Sys} {a : Action} (hnk : ∀ t, a ≠ .kill t) {o o' : Option JobObj}
    (h : JobMoves s0 a o o') : ∀ j j', o = some j → o' = some j' → LevelKept j.job j'.job := by
  induction h with
  | refl => intro j j' h1 h2; rw [h1] at h2; cases h2; exact LevelKept.refl _
  | tail hms hm ih =>
    intro j j' h1 h2
    cases hm with
    | goneUser => cases h2
    | goneTTL => cases h2
    | goneSpec => cases h2
    | delMark cur t rv _ _ hd _ =>
      cases h2
      refine (ih j cur h1 rfl).trans ⟨rfl, rfl, rfl, rfl, ?_, id, rfl, fun _ h => h⟩
      intro hsome
      rw [hd] at hsome
      cases hsome
    | kill cur t rv ha _ => exact absurd ha (hnk t)
    | ctlSpec jo sp rv _ hc hf _ _ =>
      cases h2
      have hle := (sync_spec sp jo sp (CreatePhase.refl _)).2
      refine (ih j jo h1 rfl).trans ⟨hle.template, hle.kill, hle.ttl, hle.startPolicy, fun _ => rfl, hle.adm, rfl,
        fun _ h => h⟩
    | ctlStatus jo sp rv _ hc hf _ =>
      cases h2
      have hle := (sync_spec sp jo sp (CreatePhase.refl _)).2
      refine (ih j jo h1 rfl).trans ⟨rfl, rfl, rfl, rfl, fun _ => rfl, id, hle.startTime, ?_⟩
      exact hle.names
    | ctlStatusOn jo sp rv0 rv _ hc hf _ =>
      cases h2
      have hle := (sync_spec sp jo sp (CreatePhase.refl _)).2
      refine (ih j _ h1 rfl).trans ⟨rfl, rfl, rfl, rfl, fun _ => rfl, id, hle.startTime, ?_⟩
      exact hle.names

/-- **the level is kept by every pass**, whatever faults hit it and whatever it returns: in a state
satisfying the base invariant (every reachable state does: `base_of_reach`) -/
theorem work_level_kept {j0 : JobObj} {s : Sys} (hb : Base j0 s) (j j' : JobObj) (hj : s.job = some j)
    (hj' : (JobCtl.work s).1.job = some j') : LevelKept j.job j'.job :=
  jobMoves_level (a := .work) (fun t h => by cases h) (job_moves hb .work trivial) j j' hj hj'

/-- the user does not set a kill timestamp (the one action that changes the level) -/
def noKill (_ : Sys) (a : Action) : Prop :=
  match a with
  | .kill _ => False
  | _ => True

instance (s : Sys) (a : Action) : Decidable (noKill s a) := by cases a <;> unfold noKill <;> infer_instance

/-- … and along every history without a user `kill` — any number of passes under any fault
pattern, informer lag, restarts, kubelet progress, clock, pods vanishing, foreign pods, even the
user deleting the Job: the level of the authoritative Job is kept for as long as the object exists -/
theorem steps_level_kept {ok : Sys → Action → Prop} (hok : ∀ s a, ok s a → noKill s a) {j0 : JobObj} {s s' : Sys}
    (hr : Reach ok j0 s) (hs : Steps ok j0 s s') (j j' : JobObj) (hj : s.job = some j) (hj' : s'.job = some j') :
    LevelKept j.job j'.job := by
  refine steps_rel (fun x y => LevelKept x y) LevelKept.refl (fun _ _ _ h1 h2 => h1.trans h2) ?_ hr hs j j' hj hj'
  intro s1 a _ hr1 hoka hal j1 j1' h1 h1'
  have hnk : ∀ t, a ≠ .kill t := by
    intro t hk
    have := hok s1 a hoka
    rw [hk] at this
    exact this
  exact jobMoves_level hnk (job_moves (base_of_reach hr1) a hal) j1 j1' h1 h1'

/-! ### the pass in terms of `syncOne` -/

/-- the state `SyncOne` runs in: key popped, call log reset -/
def passStart (s : Sys) (q1 : WQ) : Sys := { s with q := q1, calls := [], delRun := none }

theorem work_some (s : Sys) (k : String) (q1 : WQ) (hg : (s.q.advance s.clock).get = some (k, q1)) :
    work s =
      ({ (syncOne (passStart s q1)).1 with
          q := ((if (syncOne (passStart s q1)).2 = true then (syncOne (passStart s q1)).1.q.forget k
                 else (syncOne (passStart s q1)).1.q.addRateLimited k (syncOne (passStart s q1)).1.clock).done k),
          delRun := none },
       if (syncOne (passStart s q1)).2 = true then "ok" else "err") := by
  unfold JobCtl.work
  simp only [hg]
  rfl

theorem work_none (s : Sys) (hg : (s.q.advance s.clock).get = none) :
    work s = ({ s with q := s.q.advance s.clock, calls := [], delRun := none }, "idle") := by
  unfold JobCtl.work
  simp only [hg]

/-- a pass that does not return "idle" popped a key -/
theorem work_not_idle {s : Sys} (h : (work s).2 ≠ "idle") : ∃ k q1, (s.q.advance s.clock).get = some (k, q1) := by
  cases hg : (s.q.advance s.clock).get with
  | none => rw [work_none s hg] at h; exact absurd rfl h
  | some v => exact ⟨v.1, v.2, rfl⟩

theorem work_result (s : Sys) : (work s).2 = "idle" ∨ (work s).2 = "ok" ∨ (work s).2 = "err" := by
  cases hg : (s.q.advance s.clock).get with
  | none => rw [work_none s hg]; exact Or.inl rfl
  | some v =>
    obtain ⟨k, q1⟩ := v
    rw [work_some s k q1 hg]
    by_cases h : (syncOne (passStart s q1)).2 = true
    · right; left; simp only [h, if_true]
    · right; right; simp only [h, Bool.false_eq_true, ↓reduceIte, if_false]

/-! ### pods -/

/-- **every pod that existed before a pass still exists after it (by name), unless a successful
forced pod delete logged by this pass names it** — whatever faults hit the pass -/
theorem work_pods_kept (s : Sys) : ∀ n ∈ podNames s.pods,
    n ∈ podNames (work s).1.pods ∨ ∃ c ∈ (work s).1.calls, ForceDelOk c n := by
  intro n hn
  cases hg : (s.q.advance s.clock).get with
  | none => rw [work_none s hg]; exact Or.inl hn
  | some v =>
    obtain ⟨k, q1⟩ := v
    rw [work_some s k q1 hg]
    obtain ⟨l, hk⟩ := (syncOne_good (passStart s q1)).kept
    have hc : (syncOne (passStart s q1)).1.calls = l := by rw [hk.calls]; rfl
    rcases hk.pods n hn with h | ⟨c, hc', hd⟩
    · exact Or.inl h
    · exact Or.inr ⟨c, by show c ∈ (syncOne (passStart s q1)).1.calls; rw [hc]; exact hc', hd⟩

/-! ### the queue -/

theorem get_queue {q : WQ} {k : String} {q1 : WQ} (h : q.get = some (k, q1)) : ∃ rest, q.queue = k :: rest := by
  unfold WQ.get at h
  cases hq : q.queue with
  | nil => rw [hq] at h; cases h
  | cons x rest =>
    rw [hq] at h
    simp only [Option.some.injEq, Prod.mk.injEq] at h
    exact ⟨rest, by rw [h.1]⟩

/-- **the work queue after a pass is `Retry.work`** (the retry-loop model of
`reconciler.Controller.work`, `Model/Retry.lean`) applied to the queue after `advance`, with the
pass's result as `SyncResult.ok` and the deferred adds the pass issued as `SyncResult.during` — for
every retry budget `≤ 0` and every key `SplitMetaNamespaceKey` accepts. -/
theorem work_queue_eq (s : Sys) (k : String) (q1 : WQ) (hg : (s.q.advance s.clock).get = some (k, q1))
    (hs : splitOk k = true) (mr : Int) (hmr : mr ≤ 0) :
    ∃ ops : List QOp, (work s).1.q =
      Retry.work (s.q.advance s.clock) mr s.clock { ok := (syncOne (passStart s q1)).2, during := ops } := by
  obtain ⟨ops, hq, _⟩ := (syncOne_good (passStart s q1)).q_eq
  obtain ⟨l, hk⟩ := (syncOne_good (passStart s q1)).kept
  refine ⟨ops, ?_⟩
  rw [work_some s k q1 hg]
  unfold Retry.work
  simp only [hg, syncItem, hs, Bool.not_true, Bool.false_eq_true, if_false]
  have hq' : (syncOne (passStart s q1)).1.q = applyOps q1 s.clock ops := hq
  have hclock : (syncOne (passStart s q1)).1.clock = s.clock := hk.clock
  rw [hq', hclock]
  cases (syncOne (passStart s q1)).2 with
  | true => simp
  | false => simp [hmr]

/-- … hence `C20.retry_until_success` applies to the job controller: a pass that returned "err"
leaves its key with a deadline and its requeue counter one higher -/
theorem work_err_requeued (s : Sys) (herr : (work s).2 = "err") :
    ∃ k q1, (s.q.advance s.clock).get = some (k, q1) ∧
      (splitOk k = true → k ∈ delayedKeys (work s).1.q ∧
        numRequeues (work s).1.q.requeues k = numRequeues (s.q.advance s.clock).requeues k + 1) := by
  obtain ⟨k, q1, hg⟩ := work_not_idle (s := s) (by rw [herr]; decide)
  refine ⟨k, q1, hg, fun hs => ?_⟩
  have hok : (syncOne (passStart s q1)).2 = false := by
    rw [work_some s k q1 hg] at herr
    cases h : (syncOne (passStart s q1)).2 with
    | false => rfl
    | true => simp [h] at herr
  obtain ⟨ops, he⟩ := work_queue_eq s k q1 hg hs (-1) (by decide)
  obtain ⟨rest, hq⟩ := get_queue hg
  rw [he, hok]
  exact work_fail_delayed hq (-1) s.clock _ hs rfl (by decide)

/-! ### a pass without calls -/

/-- a pass that logged no call changed nothing but the work queue (and the bookkeeping fields the
model resets at the start of every pass) -/
theorem work_nocall_frame (s : Sys) (hnc : (work s).1.calls = []) :
    (work s).1 = { s with q := (work s).1.q, calls := [], delRun := none } := by
  cases hg : (s.q.advance s.clock).get with
  | none => rw [work_none s hg]
  | some v =>
    obtain ⟨k, q1⟩ := v
    obtain ⟨l, hk⟩ := (syncOne_good (passStart s q1)).kept
    rw [work_some s k q1 hg] at hnc ⊢
    have hl : l = [] := by
      have : (syncOne (passStart s q1)).1.calls = l := by rw [hk.calls]; rfl
      rw [← this]; exact hnc
    have hfr := hk.nocall hl
    generalize syncOne (passStart s q1) = r at hfr ⊢
    obtain ⟨s1, ok⟩ := r
    simp only at hfr ⊢
    rw [hfr]
    rfl

/-- what the pass of a state returns and logs does not depend on the work queue it is run with, as
long as it pops a key at all -/
theorem work_queue_oblivious (s : Sys) (qa qb : WQ)
    (ha : (work (setQ s qa)).2 ≠ "idle") (hb : (work (setQ s qb)).2 ≠ "idle") :
    (work (setQ s qb)).2 = (work (setQ s qa)).2 ∧ (work (setQ s qb)).1.calls = (work (setQ s qa)).1.calls := by
  obtain ⟨ka, q1a, hga⟩ := work_not_idle ha
  obtain ⟨kb, q1b, hgb⟩ := work_not_idle hb
  rw [work_some _ ka q1a hga, work_some _ kb q1b hgb]
  have e1 : passStart (setQ s qa) q1a = setQ (passStart s s.q) q1a := rfl
  have e2 : passStart (setQ s qb) q1b = setQ (passStart s s.q) q1b := rfl
  obtain ⟨ops, ho⟩ := (syncOne_good (passStart s s.q)).obl
  rw [e1, e2, ho q1a, ho q1b]
  exact ⟨rfl, rfl⟩


/-! ### the fixpoint predicate of the schema for the job controller -/

/-- `Fix` for the job controller: both watch queues are empty, both caches equal the server, and a
pass returns "ok" without issuing a single API call -/
def JobFix (s : Sys) : Prop :=
  s.jobEvs = [] ∧ s.podEvs = [] ∧ s.jobCache = s.job ∧ s.podCache = s.pods ∧
  (JobCtl.work s).2 = "ok" ∧ (JobCtl.work s).1.calls = []

theorem deliverJob_nothing (s : Sys) (h : s.jobEvs = []) : deliverJob s = s := by
  unfold deliverJob; rw [h]

theorem deliverPod_nothing (s : Sys) (h : s.podEvs = []) : deliverPod s = s := by
  unfold deliverPod; rw [h]

/-- a pass from a state whose pass logs no call, re-run with ANY queue contents at the same clock:
same result, no call -/
theorem work_nocall_again (s : Sys) (hnc : (JobCtl.work s).1.calls = []) (q' : WQ)
    (hni : (JobCtl.work (setQ (JobCtl.work s).1 q')).2 ≠ "idle") (hni0 : (JobCtl.work s).2 ≠ "idle") :
    (JobCtl.work (setQ (JobCtl.work s).1 q')).2 = (JobCtl.work s).2 ∧
    (JobCtl.work (setQ (JobCtl.work s).1 q')).1.calls = [] := by
  have hfr := work_nocall_frame s hnc
  have e1 : setQ (JobCtl.work s).1 q' = setQ { s with calls := [], delRun := none } q' := by
    rw [hfr]; rfl
  have e0 : JobCtl.work (setQ { s with calls := [], delRun := none } s.q) = JobCtl.work s := rfl
  rw [e1] at hni ⊢
  have h := work_queue_oblivious { s with calls := [], delRun := none } s.q q' (by rw [e0]; exact hni0) hni
  rw [e0] at h
  exact ⟨h.1, by rw [h.2]; exact hnc⟩

/-! ### the retry of a create whose result was lost -/

/-- the next API call is not failed by the fault oracle (in particular: no fault pending) -/
def NextCallOk (s : Sys) : Prop := ∀ f rest, s.faults = f :: rest → isFailFault f = false

theorem nextCallOk_nil {s : Sys} (h : s.faults = []) : NextCallOk s := by
  intro f rest hf; rw [h] at hf; cases hf

/-- a create for a name that is taken on the server, not failed by the oracle, is answered
AlreadyExists; it touches neither the pods nor the caches -/
theorem apiCreatePod_exists (s : Sys) (jo : JobObj) (idx : PIndex) (retry : Int) (p : PodObj)
    (hf : NextCallOk s) (hsrv : findPod s.pods (taskName jo.name idx.hash retry) = some p) :
    ∃ s1, apiCreatePod s jo idx retry = (s1, .exists) ∧ s1.podCache = s.podCache ∧ s1.pods = s.pods := by
  obtain ⟨clock, rv, cfg, d, job, pods, jobEvs, podEvs, jobCache, podCache, q0, faults, delRun, calls⟩ := s
  unfold NextCallOk at hf
  simp only at hf hsrv
  unfold apiCreatePod nextFault popFault
  cases faults with
  | nil =>
    have : isFailFault "" = false := by decide
    simp only [this, Bool.false_eq_true, if_false, hsrv, Option.isSome_some, if_true]
    exact ⟨_, rfl, rfl, rfl⟩
  | cons f rest =>
    have := hf f rest rfl
    simp only [this, Bool.false_eq_true, if_false, hsrv, Option.isSome_some, if_true]
    exact ⟨_, rfl, rfl, rfl⟩

/-! ### concrete states for the examples of Props/C20Inst -/

namespace JEx

/-- `Ex.s0` with the Job event delivered; the next pass will create pod `job-h-0` (fault slot 1:
none) and then fail its status write (fault slot 2: server error) -/
def sPre : Sys := runActs Ex.s0 [.deliverJob, .setFaults ["", "err"]]

theorem sPre_reach : Reach anyAction Ex.job sPre :=
  reach_run (Ex.s0_reach _) [.deliverJob, .setFaults ["", "err"]] (by decide +kernel)

/-- after the faulted pass: the pod exists, the status does not list it, the key waits 5 ms -/
def sErr : Sys := (JobCtl.work sPre).1

/-- the pod's watch event is delivered and the back-off (5 ms) elapses -/
def sRetry : Sys := runActs sErr [.deliverPod, .advance 5000000]

/-- the back-off elapses but the pod cache still lags -/
def sRetryLag : Sys := runActs sErr [.advance 5000000]

/-- a quiescent state: `Ex.sC` (Job Finished / Success) with every watch event delivered -/
def sFix : Sys := runActs Ex.sC [.deliverJob, .deliverPod, .deliverJob, .deliverPod]

end JEx

end Furiko.Conv
