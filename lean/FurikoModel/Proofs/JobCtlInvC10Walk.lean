/-
A generic walk through `Reconciler.sync`: a predicate on Job values that every rewrite of a pass keeps
(`PassInv`: refresh of the refs from tasks, status recomputation, deletion markers, admission-error
annotation) holds for the Job value the pass writes, provided it holds for the cached Job and the tasks
the pass works on satisfy the task predicate.  Every such task is read from a pod CONTROLLED BY THE JOB
that is in the pod cache or on the server when the pass starts, or is the pod the pass has just created
(`TaskSrc`).  Used by `Props/C10Hist.lean` / `Props/C12Hist.lean` for several per-ref invariants without
walking `sync` again each time.  Core Lean only.
-/
import FurikoModel.Proofs.JobCtlInvC10Status
import FurikoModel.Proofs.JobCtlInvFin

set_option linter.unusedSimpArgs false
set_option linter.unusedVariables false

namespace Furiko.JobCtl
open Furiko Furiko.WQ Furiko.JobCtlPlan

/-! ### the rewrites of a pass -/

/-- a deletion-marker function: it only sets `deletedStatus`, to a `Terminated / Killed` marker or to
the marker that was there with another reason -/
def MarkFn (f : TaskRef → TaskRef) : Prop :=
  ∀ r, ∃ ds, f r = { r with deletedStatus := some ds } ∧
    ((ds.state = .terminated ∧ ds.result = .killed) ∨
     ∃ ds0, r.deletedStatus = some ds0 ∧ ds.state = ds0.state ∧ ds.result = ds0.result)

theorem markFn_const (st : TaskStatus) (h1 : st.state = .terminated) (h2 : st.result = .killed) :
    MarkFn (fun r => { r with deletedStatus := some st }) := fun r => ⟨st, rfl, Or.inl ⟨h1, h2⟩⟩

theorem markFn_force : MarkFn forceMarkRef := by
  intro r
  cases h : r.deletedStatus with
  | none =>
    refine ⟨{ state := .terminated, result := .killed, reason := "ForceDeleted" }, ?_, Or.inl ⟨rfl, rfl⟩⟩
    unfold forceMarkRef; rw [h]; rfl
  | some ds0 =>
    refine ⟨{ ds0 with reason := "ForceDeleted" }, ?_, Or.inr ⟨ds0, rfl, rfl, rfl⟩⟩
    unfold forceMarkRef; rw [h]; rfl

/-- `P` is kept by every rewrite a pass applies to the Job value; `T` is what the refresh needs of the
tasks -/
structure PassInv (P : Job → Prop) (T : Task → Prop) : Prop where
  refresh : ∀ (now : Time) (rj : Job) (tasks : List Task), P rj → (∀ t ∈ tasks, T t) →
    P (updateJobTaskRefs now rj tasks)
  status : ∀ (s : Sys) (key : String) (rj : Job), P rj → P (syncJobStatusFromTaskRefs s key rj).2
  mark : ∀ (rj : Job) (names : List String) (f : TaskRef → TaskRef), MarkFn f → P rj → P (markDeleted rj names f)
  ifNotSet : ∀ (rj : Job) (name : String) (st : TaskStatus), st.state = .terminated → st.result = .killed →
    P rj → P (updateTaskRefDeletedStatusIfNotSet rj name st)
  adm : ∀ rj, P rj → P { rj with admissionError := true }

/-! ### where the tasks of a pass come from -/

/-- the task was read from a pod controlled by the Job: in the pod cache or on the server when the pass
starts, or the pod the pass created itself (`NewPod`: phase empty, no container status) -/
def TaskSrc (s : Sys) (jo : JobObj) (t : Task) : Prop :=
  ∃ p, podTask s.clock p = some t ∧ p.ownerUid = some jo.uid ∧
    (p ∈ s.podCache ∨ p ∈ s.pods ∨ ∃ idx retry, p = newPod jo idx retry (nowT s))

theorem tasksForRefs_src (s : Sys) (jo : JobObj) (refs : List TaskRef) :
    ∀ t ∈ tasksForRefs s jo refs, TaskSrc s jo t := by
  intro t ht
  unfold tasksForRefs at ht
  obtain ⟨r, _, hg⟩ := List.mem_filterMap.mp ht
  obtain ⟨p, hp, hpt, ho⟩ := getTaskForRef_owned hg
  refine ⟨p, hpt, ho, ?_⟩
  rcases hp with h | h
  · exact Or.inl (Furiko.JobCtl.findPod_some h).1
  · exact Or.inr (Or.inl (Furiko.JobCtl.findPod_some h).1)

theorem adopt_src (s : Sys) (jo jo' : JobObj) (hu : jo'.uid = jo.uid) (tasks : List Task)
    (ht : ∀ t ∈ tasks, TaskSrc s jo t) : ∀ t ∈ adoptUnrecordedTasks s jo' tasks, TaskSrc s jo t := by
  intro t hm
  rcases (mem_adoptUnrecordedTasks s jo' tasks t).mp hm with h | ⟨p, hp, hpt, _, ho, _⟩
  · exact ht t h
  · exact ⟨p, hpt, hu ▸ ho, Or.inl hp⟩

theorem finalizerTasks_src (s : Sys) (jo : JobObj) (rj : Job) : ∀ t ∈ finalizerTasks s jo rj, TaskSrc s jo t := by
  unfold finalizerTasks
  refine adopt_src s jo { jo with job := rj } rfl _ ?_
  intro t ht
  unfold tasksForRefsConfirmed at ht
  obtain ⟨r, _, hg⟩ := List.mem_filterMap.mp ht
  obtain ⟨p, hp, hpt, ho⟩ := getTaskForRefConfirmed_owned hg
  refine ⟨p, hpt, ho, ?_⟩
  rcases hp with h | h
  · exact Or.inl (Furiko.JobCtl.findPod_some h).1
  · exact Or.inr (Or.inl (Furiko.JobCtl.findPod_some h).1)

/-! ### task creation -/

theorem syncCreateTask_src {P : Job → Prop} {T : Task → Prop} (hP : PassInv P T) (s0 s : Sys) (hst : Static s0 s)
    (jo : JobObj) (rj : Job) (tasks : List Task) (idx : PIndex) (retry : Int) (hp : P rj)
    (ht : ∀ t ∈ tasks, TaskSrc s0 jo t) :
    Static s0 (syncCreateTask s jo rj tasks idx retry).1 ∧
    ∀ rj1 tasks1, (syncCreateTask s jo rj tasks idx retry).2 = some (rj1, tasks1) →
      P rj1 ∧ ∀ t ∈ tasks1, TaskSrc s0 jo t := by
  unfold syncCreateTask
  have hspec := apiCreatePod_spec s jo idx retry
  have hstat : Static s (apiCreatePod s jo idx retry).1 := by
    rcases hspec with h | h
    · exact h.1.toStatic
    · exact h.1.static
  generalize apiCreatePod s jo idx retry = r at hspec hstat ⊢
  obtain ⟨s1, res⟩ := r
  have hnow : nowT s = nowT s0 := nowT_frame hst
  have app : ∀ (p : PodObj) (t : Task), podTask s.clock p = some t → p.ownerUid = some jo.uid →
      (p ∈ s0.podCache ∨ p ∈ s0.pods ∨ ∃ idx retry, p = newPod jo idx retry (nowT s0)) →
      ∀ x ∈ tasks ++ [t], TaskSrc s0 jo x := by
    intro p t hpt ho hsrc x hx
    rcases List.mem_append.mp hx with h | h
    · exact ht x h
    · simp only [List.mem_singleton] at h; subst h; exact ⟨p, hst.clock ▸ hpt, ho, hsrc⟩
  cases res with
  | ok p =>
    (try simp only)
    refine ⟨hst.trans hstat, ?_⟩
    intro rj1 tasks1 h
    have hpnew : p = newPod jo idx retry (nowT s) := by
      rcases hspec with h' | h'
      · exact absurd rfl (h'.2 p)
      · rcases h'.2 with h'' | h''
        · simp only [CreateRes.ok.injEq] at h''; exact h''
        · cases h''
    cases hpt : podTask s.clock p with
    | none => simp [hpt] at h
    | some t =>
      simp only [hpt, Option.map_some, Option.some.injEq, Prod.mk.injEq] at h
      obtain ⟨rfl, rfl⟩ := h
      refine ⟨hp, app p t hpt ?_ (Or.inr (Or.inr ⟨idx, retry, by rw [← hnow]; exact hpnew⟩))⟩
      rw [hpnew]; rfl
  | err => (try simp only); exact ⟨hst.trans hstat, by intro _ _ h; cases h⟩
  | «exists» =>
    (try simp only)
    cases hc : findPod s1.podCache (taskName jo.name idx.hash retry) with
    | none => (try simp only); exact ⟨hst.trans hstat, by intro _ _ h; cases h⟩
    | some p =>
      (try simp only)
      have hmem : p ∈ s0.podCache := by
        have := (Furiko.JobCtl.findPod_some hc).1
        rw [hstat.podCache, hst.podCache] at this
        exact this
      split
      · rename_i ho
        refine ⟨hst.trans hstat, ?_⟩
        intro rj1 tasks1 h
        cases hpt : podTask s.clock p with
        | none => simp [hpt] at h
        | some t =>
          simp only [hpt, Option.map_some, Option.some.injEq, Prod.mk.injEq] at h
          obtain ⟨rfl, rfl⟩ := h
          exact ⟨hp, app p t hpt ho (Or.inl hmem)⟩
      · refine ⟨hst.trans hstat, ?_⟩
        intro rj1 tasks1 h
        simp only [Option.some.injEq, Prod.mk.injEq] at h
        obtain ⟨rfl, rfl⟩ := h
        exact ⟨hP.adm rj hp, ht⟩

theorem createLoop_src {P : Job → Prop} {T : Task → Prop} (hP : PassInv P T) (s0 : Sys) (jo : JobObj) :
    ∀ (reqs : List CreationRequest) (s : Sys) (rj : Job) (tasks : List Task) (minE : Option Time),
      Static s0 s → P rj → (∀ t ∈ tasks, TaskSrc s0 jo t) →
      Static s0 (createLoop jo reqs s rj tasks minE).1 ∧
      ∀ rj1 tasks1 m, (createLoop jo reqs s rj tasks minE).2 = some (rj1, tasks1, m) →
        P rj1 ∧ ∀ t ∈ tasks1, TaskSrc s0 jo t := by
  intro reqs
  induction reqs with
  | nil =>
    intro s rj tasks minE hst hp ht
    unfold createLoop
    refine ⟨hst, ?_⟩
    intro rj1 tasks1 m h
    simp only [Option.some.injEq, Prod.mk.injEq] at h
    obtain ⟨rfl, rfl, _⟩ := h
    exact ⟨hp, ht⟩
  | cons r rest ih =>
    intro s rj tasks minE hst hp ht
    rw [Furiko.JobCtl.createLoop_cons]
    by_cases hsk : skipReq r s = true
    · rw [if_pos hsk]
      exact ih s rj tasks _ hst hp ht
    · rw [if_neg hsk]
      have h1 := syncCreateTask_src hP s0 s hst jo rj tasks r.index r.retryIndex hp ht
      generalize syncCreateTask s jo rj tasks r.index r.retryIndex = res at h1 ⊢
      obtain ⟨s1, o⟩ := res
      cases o with
      | none => exact ⟨h1.1, by intro _ _ _ h; cases h⟩
      | some v =>
        obtain ⟨rj1, tasks1⟩ := v
        obtain ⟨hp1, ht1⟩ := h1.2 rj1 tasks1 rfl
        exact ih s1 rj1 tasks1 (nextMinE r minE) h1.1 hp1 ht1

theorem syncCreateTasks_src {P : Job → Prop} {T : Task → Prop} (hP : PassInv P T) (s : Sys) (jo : JobObj)
    (hT : ∀ t, TaskSrc s jo t → T t) (rj : Job) (tasks : List Task) (hp : P rj)
    (ht : ∀ t ∈ tasks, TaskSrc s jo t) :
    ∀ rj1 tasks1, (syncCreateTasks s jo rj tasks).2 = some (rj1, tasks1) → P rj1 ∧ ∀ t ∈ tasks1, TaskSrc s jo t := by
  intro rj1 tasks1
  rw [syncCreateTasks_eq]
  have adopt := adopt_src s jo jo rfl tasks ht
  split
  · intro h
    simp only [Option.some.injEq, Prod.mk.injEq] at h
    obtain ⟨rfl, rfl⟩ := h
    exact ⟨hp, adopt⟩
  · split
    · intro h
      simp only [Option.some.injEq, Prod.mk.injEq] at h
      obtain ⟨rfl, rfl⟩ := h
      exact ⟨hp, adopt⟩
    · cases hreqs : computeMissingIndexesForCreation s.d rj (rj.indexes s.d) with
      | none => (try simp only); intro h; cases h
      | some reqs =>
        (try simp only)
        have hl := createLoop_src hP s jo reqs s rj tasks none (Static.refl s) hp ht
        generalize createLoop jo reqs s rj tasks none = res at hl ⊢
        obtain ⟨s1, o⟩ := res
        cases o with
        | none => (try simp only); intro h; cases h
        | some v =>
          obtain ⟨rj', tasks', minE⟩ := v
          (try simp only)
          intro h
          simp only [Option.some.injEq, Prod.mk.injEq] at h
          obtain ⟨rfl, rfl⟩ := h
          obtain ⟨hp', ht'⟩ := hl.2 rj' tasks' minE rfl
          rw [updateTaskRefStatus_snd]
          exact ⟨hP.status _ _ _ (hP.refresh _ _ _ hp' (fun t h => hT t (ht' t h))), ht'⟩

/-! ### the handlers -/

theorem handlePending_P {P : Job → Prop} {T : Task → Prop} (hP : PassInv P T) (s : Sys) (jo : JobObj) (rj : Job)
    (tasks : List Task) (hp : P rj) : ∀ rj', (handlePendingTasks s jo rj tasks).2 = some rj' → P rj' := by
  intro rj'
  rw [handlePendingTasks_eq]
  cases getPendingTimeout rj s.cfg with
  | none => intro h; cases h; exact hp
  | some Tm =>
    (try simp only)
    split
    · intro h; cases h; exact hp
    · split
      · intro h; cases h; exact hp
      · intro h
        split at h
        · cases h; exact hP.mark _ _ _ (markFn_const pendingStatus rfl rfl) hp
        · cases h

theorem handleKill_P {P : Job → Prop} {T : Task → Prop} (hP : PassInv P T) (s : Sys) (jo : JobObj) (rj : Job)
    (tasks : List Task) (hp : P rj) : ∀ rj', (handleKillJob s jo rj tasks).2 = some rj' → P rj' := by
  intro rj'
  rw [handleKillJob_eq]
  split
  · split
    · intro h; cases h; exact hp
    · intro h
      split at h
      · cases h; exact hP.mark _ _ _ (markFn_const killedStatus rfl rfl) hp
      · cases h
  · cases rj.killTimestamp with
    | none => intro h; cases h; exact hp
    | some ts => intro h; cases h; exact hp

theorem handleForce_P {P : Job → Prop} {T : Task → Prop} (hP : PassInv P T) (s : Sys) (jo : JobObj) (rj : Job)
    (tasks : List Task) (hp : P rj) (ht : ∀ t ∈ tasks, T t) :
    ∀ rj', (handleForceDelete s jo rj tasks).2 = some rj' → P rj' := by
  intro rj'
  rw [handleForceDelete_eq]
  split
  · intro h; cases h; exact hp
  · split
    · intro h; cases h; exact hp
    · (try simp only)
      split
      · intro h; cases h; exact hp
      · intro h
        split at h
        · cases h; exact hP.refresh _ _ _ (hP.mark _ _ _ markFn_force hp) ht
        · cases h

theorem syncJobTasks_P {P : Job → Prop} {T : Task → Prop} (hP : PassInv P T) (s : Sys) (jo : JobObj)
    (hT : ∀ t, TaskSrc s jo t → T t) (rj rjOut : Job) (hp : P rj) (hok : (syncJobTasks s jo rj).2 = some rjOut) :
    P rjOut := by
  obtain ⟨s1, rj1, tasks1, s2, rj2, s3, rj3, s4, rj4, s5, rj5, hcr, hu2, hr3, hr4, hr5, heq, _⟩ :=
    syncJobTasks_success s jo rj rjOut hok
  obtain ⟨hp1, ht1⟩ := syncCreateTasks_src hP s jo hT rj (tasks0 s jo rj) hp (tasksForRefs_src s jo _) rj1 tasks1
    (by rw [hcr])
  have hT1 : ∀ t ∈ tasks1, T t := fun t h => hT t (ht1 t h)
  have hp2 : P rj2 := by
    have : rj2 = (updateTaskRefStatus s1 (jobKey jo) rj1 tasks1).2 := by rw [hu2]
    rw [this, updateTaskRefStatus_snd]
    exact hP.status _ _ _ (hP.refresh _ _ _ hp1 hT1)
  have hp3 : P rj3 := handlePending_P hP s2 jo rj2 tasks1 hp2 rj3 (by rw [hr3])
  have hp4 : P rj4 := handleKill_P hP s3 jo rj3 tasks1 hp3 rj4 (by rw [hr4])
  have hp5 : P rj5 := handleForce_P hP s4 jo rj4 tasks1 hp4 hT1 rj5 (by rw [hr5])
  rw [heq] at hok
  simp only [Option.some.injEq] at hok
  rw [← hok, updateTaskRefStatus_snd]
  exact hP.status _ _ _ (hP.refresh _ _ _ hp5 hT1)

/-! ### the finalizer -/

theorem foldl_ifNotSet_P {P : Job → Prop} {T : Task → Prop} (hP : PassInv P T) (st : TaskStatus)
    (h1 : st.state = .terminated) (h2 : st.result = .killed) (tasks : List Task) :
    ∀ rj, P rj → P (tasks.foldl (fun acc t => updateTaskRefDeletedStatusIfNotSet acc t.name st) rj) := by
  induction tasks with
  | nil => intro rj h; exact h
  | cons t rest ih => intro rj h; exact ih _ (hP.ifNotSet rj t.name st h1 h2 h)

theorem handleFinalizer_P {P : Job → Prop} {T : Task → Prop} (hP : PassInv P T) (s : Sys) (jo : JobObj) (rj : Job)
    (fz : Bool) (hp : P rj) (ht : ∀ t ∈ finalizerTasks s jo rj, T t) :
    ∀ rj1 fz1, (handleFinalizer s jo rj fz).2 = some (rj1, fz1) → P rj1 := by
  intro rj1 fz1
  unfold handleFinalizer
  split
  · intro h; cases h; exact hp
  · split
    · intro h; cases h; exact hp
    · (try simp only)
      split
      · have hp1 : P (syncJobStatusFromTaskRefs s (jobKey jo) (updateJobTaskRefs s.clock
            ((finalizerTasks s jo rj).foldl (fun acc t => updateTaskRefDeletedStatusIfNotSet acc t.name
              { state := .terminated, result := .killed, reason := "JobDeleted" }) rj) (finalizerTasks s jo rj))).2 :=
          hP.status _ _ _ (hP.refresh _ _ _ (foldl_ifNotSet_P hP _ rfl rfl _ rj hp) ht)
        have h1 := updateTaskRefStatus_snd s (jobKey jo)
          ((finalizerTasks s jo rj).foldl (fun acc t => updateTaskRefDeletedStatusIfNotSet acc t.name
            { state := .terminated, result := .killed, reason := "JobDeleted" }) rj) (finalizerTasks s jo rj)
        rw [← h1] at hp1
        generalize updateTaskRefStatus s (jobKey jo) _ (finalizerTasks s jo rj) = r1 at hp1 ⊢
        obtain ⟨s1, rj2⟩ := r1
        (try simp only at hp1 ⊢)
        generalize deleteTasks s1 (finalizerTasks s jo rj) false = r2
        obtain ⟨s2, ok⟩ := r2
        (try simp only)
        intro h
        cases ok with
        | false => simp at h
        | true =>
          simp only [↓reduceIte, Option.some.injEq, Prod.mk.injEq] at h
          obtain ⟨rfl, _⟩ := h
          exact hp1
      · have hp1 : P (syncJobStatusFromTaskRefs s (jobKey jo) (updateJobTaskRefs s.clock rj [])).2 :=
          hP.status _ _ _ (hP.refresh _ _ _ hp (by intro t h; cases h))
        have h1 := updateTaskRefStatus_snd s (jobKey jo) rj []
        rw [← h1] at hp1
        generalize updateTaskRefStatus s (jobKey jo) rj [] = r1 at hp1 ⊢
        obtain ⟨s1, rj1'⟩ := r1
        (try simp only at hp1 ⊢)
        intro h
        simp only [Option.some.injEq, Prod.mk.injEq] at h
        obtain ⟨rfl, _⟩ := h
        exact hp1

/-! ### the whole pass -/

/-- **the generic pass invariant**: if `P` is kept by every rewrite (`PassInv`), holds of the cached Job,
and `T` holds of every task read from a pod of the Job that the pass can see (`TaskSrc`), then `P` holds
of the Job value `sync` returns — the one the two final writes use. -/
theorem sync_passInv {P : Job → Prop} {T : Task → Prop} (hP : PassInv P T) (s : Sys) (jo : JobObj)
    (hT : ∀ t, TaskSrc s jo t → T t) (h0 : P jo.job) : P (sync s jo).2.1 := by
  by_cases hd : isDeleted jo.job = true
  · -- being deleted: the task stage is skipped; status refresh, then the finalizer
    unfold sync
    simp only [hd, Bool.not_true, Bool.and_false, Bool.false_eq_true, ↓reduceIte]
    have h2 := syncJobStatusFromTaskRefs_spec s (jobKey jo) jo.job
    have ht2 := syncJobStatusFromTaskRefs_tasks s (jobKey jo) jo.job
    have hp2 := hP.status s (jobKey jo) jo.job h0
    generalize syncJobStatusFromTaskRefs s (jobKey jo) jo.job = r2 at h2 ht2 hp2 ⊢
    obtain ⟨s2, rj2⟩ := r2
    simp only at h2 ht2 hp2 ⊢
    have hdel2 : rj2.deletionTimestamp.isSome = true := by rw [h2.2.del]; exact hd
    have httl : handleTTL s2 jo rj2 = (s2, true) := by
      unfold handleTTL
      have : isDeleted rj2 = true := hdel2
      simp [this]
    rw [httl]
    simp only
    have hsrc : ∀ t ∈ finalizerTasks s2 jo rj2, T t := by
      intro t ht
      rw [finalizerTasks_frame h2.1] at ht
      exact hT t (finalizerTasks_src s jo rj2 t ht)
    have hfin := handleFinalizer_P hP s2 jo rj2 jo.finalizer hp2 hsrc
    generalize handleFinalizer s2 jo rj2 jo.finalizer = r4 at hfin ⊢
    obtain ⟨s4, o4⟩ := r4
    cases o4 with
    | none => exact hp2
    | some v =>
      obtain ⟨rj3, fin⟩ := v
      exact hfin rj3 fin rfl
  · -- not being deleted: task stage (if started), status refresh, TTL; the finalizer step is the identity
    have hnd : jo.job.deletionTimestamp = none := by
      unfold isDeleted at hd
      cases h : jo.job.deletionTimestamp with
      | none => rfl
      | some x => rw [h] at hd; exact absurd rfl hd
    rw [sync_eq]
    obtain ⟨_, _, hle1⟩ := syncTasksStage_le s jo
    have hst1 : ∀ rj1, (syncTasksStage s jo).2 = some rj1 → P rj1 := by
      intro rj1
      unfold syncTasksStage
      split
      · intro h; exact syncJobTasks_P hP s jo hT jo.job rj1 h0 h
      · intro h; cases h; exact h0
    generalize syncTasksStage s jo = st at *
    obtain ⟨s1, o⟩ := st
    cases o with
    | none => exact h0
    | some rj1 =>
      simp only at hle1 hst1 ⊢
      have hp1 := hst1 rj1 rfl
      have hp2 := hP.status s1 (jobKey jo) rj1 hp1
      have hspec2 := (syncJobStatusFromTaskRefs_spec s1 (jobKey jo) rj1).2
      generalize syncJobStatusFromTaskRefs s1 (jobKey jo) rj1 = u at *
      obtain ⟨s2, rj2⟩ := u
      simp only at hp2 hspec2 ⊢
      have hdel2 : rj2.deletionTimestamp = none := by rw [hspec2.del, (hle1 rj1 rfl).del]; exact hnd
      generalize handleTTL s2 jo rj2 = r
      obtain ⟨s3, b⟩ := r
      cases b with
      | false => exact hp2
      | true =>
        simp only
        obtain ⟨_, _, _, hid, _⟩ := handleFinalizer_ext s3 jo rj2 jo.finalizer
        rw [hid (Or.inl hdel2)]
        exact hp2

end Furiko.JobCtl
