/-
Third walk, part 2: the task lists of a pass and the functions of `sync`.  Result: `sync_g3`.
Core Lean only.
-/
import FurikoModel.Proofs.JobCtlInvStabWalk
import FurikoModel.Proofs.JobCtlInvOwned

set_option linter.unusedSimpArgs false
set_option linter.unusedVariables false

namespace Furiko.JobCtl
open Furiko Furiko.WQ Furiko.StatusLemmas Furiko.ParallelLemmas

/-- what is known about the pods when the pass starts in `sp` (histories without foreign pods: every
pod is the Job's, so the lookups are `getTaskForRef0` / `liveGetTask0`) -/
structure PassCtx (j0 : JobObj) (sp : Sys) : Prop where
  pods : PodsGood j0 sp
  owned : Owned j0 sp
  nodup : (podNames sp.pods).Nodup
  lin : ∀ c ∈ sp.podCache, c.pod.isFinished = true → PodFinIn sp.pods c.pod.name

theorem podFinIn_of_mem {P : List PodObj} (hnd : (podNames P).Nodup) {p : PodObj} (hp : p ∈ P)
    (hf : p.pod.isFinished = true) : PodFinIn P p.pod.name := by
  intro q hq hn
  have h1 := findPod_of_mem_nodup hnd hq
  have h2 := findPod_of_mem_nodup hnd hp
  rw [hn, h2] at h1
  cases h1; exact hf

theorem podFinIn_of_absent {P : List PodObj} {n : String} (h : findPod P n = none) : PodFinIn P n :=
  fun q hq hn => absurd hn (findPod_none h q hq)

theorem liveGetTask_sem {j0 : JobObj} {sp : Sys} (ctx : PassCtx j0 sp) {n : String} {t : Task}
    (h : liveGetTask0 sp n = some t) :
    TaskSem t ∧ t.name = n ∧ (t.ref.finishTimestamp.isSome = true → PodFinIn sp.pods n) ∧
    (PodFinIn sp.pods n → t.ref.finishTimestamp.isSome = true) := by
  obtain ⟨p, hp, hpt⟩ : ∃ p, findPod sp.pods n = some p ∧ podTask sp.clock p = some t := by
    unfold liveGetTask0 at h
    cases hp : findPod sp.pods n with
    | none => simp [hp] at h
    | some p => simp only [hp] at h; exact ⟨p, rfl, h⟩
  have hpm := findPod_some hp
  have hc := (ctx.pods.pods p hpm.1 (ctx.owned.pods p hpm.1)).2
  refine ⟨podTask_sem hc hpt, (podTask_ok hpt).2.trans hpm.2, ?_, ?_⟩
  · intro hf
    have := podFinIn_of_mem ctx.nodup hpm.1 ((podTask_fin_iff hc hpt).mp hf)
    rw [hpm.2] at this; exact this
  · intro hfin
    exact (podTask_fin_iff hc hpt).mpr (hfin p hpm.1 hpm.2)

theorem liveGetTask_none_lost {sp : Sys} (nodup : (podNames sp.pods).Nodup) {n : String}
    (h : liveGetTask0 sp n = none) : PodFinIn sp.pods n := by
  unfold liveGetTask0 at h
  cases hp : findPod sp.pods n with
  | none => exact podFinIn_of_absent hp
  | some p =>
    simp only [hp] at h
    have hpm := findPod_some hp
    have := podFinIn_of_mem nodup hpm.1 (podTask_none_finished h)
    rw [hpm.2] at this; exact this

/-- the task found for a ref -/
theorem getTaskForRef_sem {j0 : JobObj} {sp : Sys} (ctx : PassCtx j0 sp) {ref : TaskRef} {t : Task}
    (h : getTaskForRef0 sp ref = some t)
    (hfinref : ref.finishTimestamp.isSome = true → PodFinIn sp.pods ref.name) :
    TaskSem t ∧ (t.ref.finishTimestamp.isSome = true → PodFinIn sp.pods ref.name) ∧
    (ref.finishTimestamp.isSome = true → t.ref.finishTimestamp.isSome = true) := by
  unfold getTaskForRef0 at h
  cases hc : findPod sp.podCache ref.name with
  | some c =>
    simp only [hc] at h
    have hcm := findPod_some hc
    have hcc := (ctx.pods.cache c hcm.1 (ctx.owned.cache c hcm.1)).2
    cases hpt : podTask sp.clock c with
    | none => simp [hpt] at h
    | some t0 =>
      simp only [hpt] at h
      split at h
      · rename_i hcond
        simp only [Option.some.injEq] at h; subst h
        refine ⟨podTask_sem hcc hpt, ?_, ?_⟩
        · intro hf
          have := ctx.lin c hcm.1 ((podTask_fin_iff hcc hpt).mp hf)
          rw [hcm.2] at this; exact this
        · intro hrf
          simp only [Bool.or_eq_true] at hcond
          rcases hcond with hcond | hcond
          · cases hx : ref.finishTimestamp <;> simp_all
          · exact hcond
      · obtain ⟨h1, _, h3, h4⟩ := liveGetTask_sem ctx h
        exact ⟨h1, h3, fun hrf => h4 (hfinref hrf)⟩
  | none =>
    simp only [hc] at h
    split at h
    · cases h
    · obtain ⟨h1, _, h3, h4⟩ := liveGetTask_sem ctx h
      exact ⟨h1, h3, fun hrf => h4 (hfinref hrf)⟩

/-- no task found for an unfinished ref: its pod is gone (or finished) -/
theorem getTaskForRef_none_lost {j0 : JobObj} {sp : Sys} (ctx : PassCtx j0 sp) {ref : TaskRef}
    (h : getTaskForRef0 sp ref = none) (hunf : ref.finishTimestamp.isSome = false) : PodFinIn sp.pods ref.name := by
  unfold getTaskForRef0 at h
  cases hc : findPod sp.podCache ref.name with
  | some c =>
    simp only [hc] at h
    have hcm := findPod_some hc
    cases hpt : podTask sp.clock c with
    | none =>
      have := ctx.lin c hcm.1 (podTask_none_finished hpt)
      rw [hcm.2] at this; exact this
    | some t0 =>
      simp only [hpt] at h
      have : (ref.finishTimestamp.isNone || t0.ref.finishTimestamp.isSome) = true := by
        cases hx : ref.finishTimestamp <;> simp_all
      rw [if_pos this] at h; cases h
  | none =>
    simp only [hc] at h
    have : ¬ ref.finishTimestamp.isSome = true := by simp [hunf]
    rw [if_neg this] at h
    exact liveGetTask_none_lost ctx.nodup h

/-- the refs of the cached Job against the tasks found for them -/
theorem tasksForRefs_refsOK {j0 jo : JobObj} {sp : Sys} (ctx : PassCtx j0 sp) (hu : jo.uid = j0.uid)
    (N : List String) (R : List TaskRef)
    (hnd : (R.map (·.name)).Nodup) (hrs : ∀ r ∈ R, RS r)
    (hfin : ∀ r ∈ R, r.finishTimestamp.isSome = true → PodFinIn sp.pods r.name) (hN : ∀ r ∈ R, r.name ∈ N) :
    TasksSem sp.pods N (tasksForRefs sp jo R) ∧ RefsOK sp.pods N (tasksForRefs sp jo R) R := by
  have key : ∀ t ∈ tasksForRefs sp jo R, ∃ r ∈ R, getTaskForRef0 sp r = some t ∧ t.name = r.name := by
    intro t ht
    unfold tasksForRefs at ht
    obtain ⟨r, hr, hg⟩ := List.mem_filterMap.mp ht
    exact ⟨r, hr, getTaskForRef_eq0 ctx.owned hu r ▸ hg, (getTaskForRef_ok hg).2⟩
  refine ⟨⟨?_, ?_, ?_⟩, ⟨hrs, ?_, hfin, ?_, fun r hr _ => hN r hr, fun r hr => Or.inl (hN r hr)⟩⟩
  · intro t ht
    obtain ⟨r, hr, hg, _⟩ := key t ht
    exact (getTaskForRef_sem ctx hg (hfin r hr)).1
  · intro t ht hf
    obtain ⟨r, hr, hg, hn⟩ := key t ht
    rw [hn]
    exact (getTaskForRef_sem ctx hg (hfin r hr)).2.1 hf
  · intro t ht _
    obtain ⟨r, hr, _, hn⟩ := key t ht
    rw [hn]; exact hN r hr
  · intro t ht ex hex hn hf
    obtain ⟨r, hr, hg, hn'⟩ := key t ht
    have : r = ex := eq_of_same_name hnd hr hex (hn'.symm.trans hn.symm)
    subst this
    exact (getTaskForRef_sem ctx hg (hfin r hr)).2.2 hf
  · intro r hr hn hunf
    cases hg : getTaskForRef sp jo r with
    | none => exact getTaskForRef_none_lost ctx (getTaskForRef_eq0 ctx.owned hu r ▸ hg) hunf
    | some t =>
      exfalso
      apply hn
      refine List.mem_map.mpr ⟨t, ?_, (getTaskForRef_ok hg).2⟩
      unfold tasksForRefs
      exact List.mem_filterMap.mpr ⟨r, hr, hg⟩

/-- … and against the tasks the finalizer finds (every absence confirmed by a live GET) -/
theorem tasksForRefsConfirmed_refsOK {j0 jo : JobObj} {sp : Sys} (ctx : PassCtx j0 sp) (hu : jo.uid = j0.uid)
    (N : List String)
    (R : List TaskRef) (hnd : (R.map (·.name)).Nodup) (hrs : ∀ r ∈ R, RS r)
    (hfin : ∀ r ∈ R, r.finishTimestamp.isSome = true → PodFinIn sp.pods r.name) (hN : ∀ r ∈ R, r.name ∈ N) :
    TasksSem sp.pods N (tasksForRefsConfirmed sp jo R) ∧ RefsOK sp.pods N (tasksForRefsConfirmed sp jo R) R := by
  have sem : ∀ (r : TaskRef) (t : Task), r ∈ R → getTaskForRefConfirmed sp jo r = some t →
      TaskSem t ∧ t.name = r.name ∧ (t.ref.finishTimestamp.isSome = true → PodFinIn sp.pods r.name) ∧
      (r.finishTimestamp.isSome = true → t.ref.finishTimestamp.isSome = true) := by
    intro r t hr hg
    unfold getTaskForRefConfirmed at hg
    cases h0 : getTaskForRef sp jo r with
    | some t0 =>
      simp only [h0, Option.some.injEq] at hg; subst hg
      have := getTaskForRef_sem ctx (getTaskForRef_eq0 ctx.owned hu r ▸ h0) (hfin r hr)
      exact ⟨this.1, (getTaskForRef_ok h0).2, this.2.1, this.2.2⟩
    | none =>
      simp only [h0] at hg
      rw [liveGetTask_eq0 ctx.owned hu] at hg
      obtain ⟨h1, h2, h3, h4⟩ := liveGetTask_sem ctx hg
      exact ⟨h1, h2, h3, fun hrf => h4 (hfin r hr hrf)⟩
  have key : ∀ t ∈ tasksForRefsConfirmed sp jo R, ∃ r ∈ R, getTaskForRefConfirmed sp jo r = some t := by
    intro t ht
    unfold tasksForRefsConfirmed at ht
    obtain ⟨r, hr, hg⟩ := List.mem_filterMap.mp ht
    exact ⟨r, hr, hg⟩
  refine ⟨⟨?_, ?_, ?_⟩, ⟨hrs, ?_, hfin, ?_, fun r hr _ => hN r hr, fun r hr => Or.inl (hN r hr)⟩⟩
  · intro t ht
    obtain ⟨r, hr, hg⟩ := key t ht
    exact (sem r t hr hg).1
  · intro t ht hf
    obtain ⟨r, hr, hg⟩ := key t ht
    have := sem r t hr hg
    rw [this.2.1]; exact this.2.2.1 hf
  · intro t ht _
    obtain ⟨r, hr, hg⟩ := key t ht
    rw [(sem r t hr hg).2.1]; exact hN r hr
  · intro t ht ex hex hn hf
    obtain ⟨r, hr, hg⟩ := key t ht
    have hs := sem r t hr hg
    have : r = ex := eq_of_same_name hnd hr hex (hs.2.1.symm.trans hn.symm)
    subst this
    exact hs.2.2.2 hf
  · intro r hr hn hunf
    cases hg : getTaskForRefConfirmed sp jo r with
    | none =>
      unfold getTaskForRefConfirmed at hg
      cases h0 : getTaskForRef sp jo r with
      | some t0 => simp [h0] at hg
      | none =>
        simp only [h0] at hg
        rw [liveGetTask_eq0 ctx.owned hu] at hg
        exact liveGetTask_none_lost ctx.nodup hg
    | some t =>
      exfalso
      apply hn
      refine List.mem_map.mpr ⟨t, ?_, (sem r t hr hg).2.1⟩
      unfold tasksForRefsConfirmed
      exact List.mem_filterMap.mpr ⟨r, hr, hg⟩

/-- a freshly created pod is not finished -/
theorem newPod_not_finished (jo : JobObj) (idx : PIndex) (retry : Int) (tm : Time) :
    (newPod jo idx retry tm).pod.isFinished = false := rfl

/-- the tasks the creation loop adds -/
theorem newTask_sem {j0 : JobObj} {sp : Sys} (ctx : PassCtx j0 sp) {jo : JobObj} {P0 names : List String} {t : Task}
    (h : NewTask jo sp.podCache P0 names t) :
    TaskSem t ∧ (t.ref.finishTimestamp.isSome = true → PodFinIn sp.pods t.name) ∧
    (t.ref.finishTimestamp.isSome = true → t.name ∈ podNames sp.podCache) := by
  obtain ⟨_, p, now, hpt, hsrc⟩ := h
  rcases hsrc with ⟨⟨idx, retry, tm, rfl⟩, _⟩ | hc
  · have hunf : ¬ t.ref.finishTimestamp.isSome = true := by
      intro hf
      have := (podTask_fin_iff (p := newPod jo idx retry tm) rfl hpt).mp hf
      rw [newPod_not_finished] at this; cases this
    exact ⟨podTask_sem rfl hpt, fun hf => absurd hf hunf, fun hf => absurd hf hunf⟩
  · have hcc := (ctx.pods.cache p hc.1 (ctx.owned.cache p hc.1)).2
    refine ⟨podTask_sem hcc hpt, ?_, ?_⟩
    · intro hf
      have := ctx.lin p hc.1 ((podTask_fin_iff hcc hpt).mp hf)
      rw [(podTask_ok hpt).2]; exact this
    · intro _
      rw [(podTask_ok hpt).2]
      exact List.mem_map_of_mem hc.1

end Furiko.JobCtl
