/-
Helper lemmas for Proofs/HeapSpec.lean: bookkeeping (`WF'`, `Step`) facts about the heap model.
Everything is phrased with `arr[i]!` (as in the model) to avoid dependent bounds proofs.
-/
import FurikoModel.Model.Heap

namespace Furiko.Heap

/-- `WF` of HeapSpec phrased with `[i]!`. -/
def WF' (pq : PQ) : Prop :=
  (∀ i, i < pq.queue.size → (pq.queue[i]!).index = i ∧ pq.names (pq.queue[i]!).name = some i) ∧
  (∀ k i, pq.names k = some i → i < pq.queue.size ∧ (pq.queue[i]!).name = k)

def prio (pq : PQ) (m : Nat) : Int := (pq.queue[m]!).prio

theorem less_eq (pq : PQ) (i j : Nat) : pq.less i j = decide (prio pq i < prio pq j) := rfl

theorem search_eq (pq : PQ) (k : String) :
    search pq k = (pq.names k).map (fun i => prio pq i) := by
  unfold search PQ.search prio
  cases pq.names k <;> rfl

/-! ### swap -/

@[simp] theorem swap_size (pq : PQ) (i j : Nat) : (pq.swap i j).queue.size = pq.queue.size := by
  simp [PQ.swap]

theorem swap_get (pq : PQ) (i j m : Nat) (hi : i < pq.queue.size) (hj : j < pq.queue.size) :
    (pq.swap i j).queue[m]! =
      if m = j then { pq.queue[i]! with index := j }
      else if m = i then { pq.queue[j]! with index := i }
      else pq.queue[m]! := by
  simp only [PQ.swap]
  by_cases h1 : m = j
  · subst h1
    by_cases h2 : i = m
    · subst h2; simp [hi]
    · simp [hi, hj, h2]
  · by_cases h2 : m = i
    · subst h2
      have : j ≠ m := fun h => h1 h.symm
      simp [hi, hj, h1, this]
    · have h3 : j ≠ m := fun h => h1 h.symm
      have h4 : i ≠ m := fun h => h2 h.symm
      simp [h1, h2, h3, h4, Array.getElem!_eq_getD, Array.getD_eq_getD_getElem?,
        Array.getElem?_setIfInBounds]

theorem swap_prio (pq : PQ) (i j m : Nat) (hi : i < pq.queue.size) (hj : j < pq.queue.size) :
    prio (pq.swap i j) m = if m = j then prio pq i else if m = i then prio pq j else prio pq m := by
  unfold prio
  rw [swap_get pq i j m hi hj]
  split
  · rfl
  · split <;> rfl

theorem swap_names (pq : PQ) (i j : Nat) (k : String) (hi : i < pq.queue.size)
    (hj : j < pq.queue.size) :
    (pq.swap i j).names k =
      if k = (pq.queue[i]!).name then some ((pq.names (pq.queue[j]!).name).getD 0)
      else if k = (pq.queue[j]!).name then some ((pq.names (pq.queue[i]!).name).getD 0)
      else pq.names k := by
  simp only [PQ.swap, setName]
  by_cases h : i = j
  · subst h; simp [hi]
  · have h' : j ≠ i := fun e => h e.symm
    simp [hi, hj, h']

/-! ### `Step`: bookkeeping-preserving transitions that do not touch positions `≥ n` -/

/-- `b` is a well-formed rearrangement of `a` that leaves positions `≥ n` untouched. -/
def Step (n : Nat) (a b : PQ) : Prop :=
  WF' b ∧ b.queue.size = a.queue.size ∧ (∀ k, search b k = search a k) ∧
    ∀ m, n ≤ m → b.queue[m]! = a.queue[m]!

theorem Step.refl {n : Nat} {a : PQ} (h : WF' a) : Step n a a :=
  ⟨h, rfl, fun _ => rfl, fun _ _ => rfl⟩

theorem Step.trans {n : Nat} {a b c : PQ} (h1 : Step n a b) (h2 : Step n b c) : Step n a c :=
  ⟨h2.1, h2.2.1.trans h1.2.1, fun k => (h2.2.2.1 k).trans (h1.2.2.1 k),
    fun m hm => (h2.2.2.2 m hm).trans (h1.2.2.2 m hm)⟩

theorem swap_get_j (pq : PQ) (i j : Nat) (hi : i < pq.queue.size) (hj : j < pq.queue.size) :
    (pq.swap i j).queue[j]! = { pq.queue[i]! with index := j } := by
  rw [swap_get pq i j j hi hj, if_pos rfl]

theorem swap_get_i (pq : PQ) (i j : Nat) (hi : i < pq.queue.size) (hj : j < pq.queue.size) :
    (pq.swap i j).queue[i]! = { pq.queue[j]! with index := i } := by
  rw [swap_get pq i j i hi hj]
  split
  · next e => subst e; rfl
  · rw [if_pos rfl]

theorem swap_get_other (pq : PQ) (i j m : Nat) (hi : i < pq.queue.size) (hj : j < pq.queue.size)
    (hmi : m ≠ i) (hmj : m ≠ j) : (pq.swap i j).queue[m]! = pq.queue[m]! := by
  rw [swap_get pq i j m hi hj, if_neg hmj, if_neg hmi]

theorem WF'.inj {a : PQ} (h : WF' a) {i j : Nat} (hi : i < a.queue.size) (hj : j < a.queue.size)
    (e : (a.queue[i]!).name = (a.queue[j]!).name) : i = j := by
  have h1 := (h.1 i hi).2
  have h2 := (h.1 j hj).2
  rw [e, h2] at h1
  exact (Option.some.inj h1).symm

theorem swap_names_wf {a : PQ} (h : WF' a) (i j : Nat) (hi : i < a.queue.size)
    (hj : j < a.queue.size) (k : String) :
    (a.swap i j).names k =
      if k = (a.queue[i]!).name then some j else if k = (a.queue[j]!).name then some i
      else a.names k := by
  rw [swap_names a i j k hi hj, (h.1 i hi).2, (h.1 j hj).2]; rfl

theorem swap_wf1 {a : PQ} (h : WF' a) (i j m : Nat) (hi : i < a.queue.size)
    (hj : j < a.queue.size) (hm : m < a.queue.size) :
    ((a.swap i j).queue[m]!).index = m ∧ (a.swap i j).names ((a.swap i j).queue[m]!).name = some m := by
  rw [swap_names_wf h i j hi hj]
  by_cases e1 : m = j
  · subst e1
    rw [swap_get_j a i m hi hm]
    exact ⟨rfl, if_pos rfl⟩
  · by_cases e2 : m = i
    · subst e2
      rw [swap_get_i a m j hm hj]
      refine ⟨rfl, ?_⟩
      show (if (a.queue[j]!).name = (a.queue[m]!).name then _ else _) = _
      rw [if_neg (fun e => e1 (h.inj hm hj e.symm)), if_pos rfl]
    · rw [swap_get_other a i j m hi hj e2 e1]
      refine ⟨(h.1 m hm).1, ?_⟩
      rw [if_neg (fun e => e2 (h.inj hm hi e)), if_neg (fun e => e1 (h.inj hm hj e))]
      exact (h.1 m hm).2

theorem swap_wf2 {a : PQ} (h : WF' a) (i j : Nat) (hi : i < a.queue.size)
    (hj : j < a.queue.size) (k : String) (m : Nat) (hk : (a.swap i j).names k = some m) :
    m < a.queue.size ∧ ((a.swap i j).queue[m]!).name = k := by
  rw [swap_names_wf h i j hi hj] at hk
  split at hk
  · next e =>
    have : j = m := Option.some.inj hk
    subst this
    rw [swap_get_j a i j hi hj]
    exact ⟨hj, e.symm⟩
  · split at hk
    · next e0 e =>
      have : i = m := Option.some.inj hk
      subst this
      rw [swap_get_i a i j hi hj]
      exact ⟨hi, e.symm⟩
    · next e0 e1 =>
      obtain ⟨hm, hk'⟩ := h.2 k m hk
      have n1 : m ≠ j := by rintro rfl; exact e1 hk'.symm
      have n2 : m ≠ i := by rintro rfl; exact e0 hk'.symm
      rw [swap_get_other a i j m hi hj n2 n1]
      exact ⟨hm, hk'⟩

theorem swap_search {a : PQ} (h : WF' a) (i j : Nat) (hi : i < a.queue.size)
    (hj : j < a.queue.size) (k : String) : search (a.swap i j) k = search a k := by
  rw [search_eq, search_eq, swap_names_wf h i j hi hj]
  split
  · next e =>
    rw [e, (h.1 i hi).2, Option.map_some, Option.map_some]
    rw [swap_prio a i j j hi hj, if_pos rfl]
  · split
    · next e0 e =>
      rw [e, (h.1 j hj).2, Option.map_some, Option.map_some]
      rw [swap_prio a i j i hi hj]
      split
      · next e' => rw [e']
      · rw [if_pos rfl]
    · next e0 e1 =>
      rcases Option.eq_none_or_eq_some (a.names k) with hk | ⟨m, hk⟩
      · rw [hk, Option.map_none, Option.map_none]
      · rw [hk, Option.map_some, Option.map_some]
        obtain ⟨hm, hk'⟩ := h.2 k m hk
        have n1 : m ≠ j := by rintro rfl; exact e1 hk'.symm
        have n2 : m ≠ i := by rintro rfl; exact e0 hk'.symm
        rw [swap_prio a i j m hi hj, if_neg n1, if_neg n2]

theorem swap_step {n : Nat} {a : PQ} (h : WF' a) (i j : Nat) (hi : i < n) (hj : j < n)
    (hn : n ≤ a.queue.size) : Step n a (a.swap i j) := by
  have hi' : i < a.queue.size := by omega
  have hj' : j < a.queue.size := by omega
  refine ⟨⟨?_, ?_⟩, swap_size a i j, swap_search h i j hi' hj', ?_⟩
  · intro m hm
    rw [swap_size] at hm
    exact swap_wf1 h i j m hi' hj' hm
  · intro k m hk
    rw [swap_size]
    exact swap_wf2 h i j hi' hj' k m hk
  · intro m hm
    exact swap_get_other a i j m hi' hj' (by omega) (by omega)

/-! ### `up`, `downLoop` are `Step`s -/

theorem up_step {n : Nat} (fuel : Nat) : ∀ {a : PQ} (j : Nat), WF' a → j < n → n ≤ a.queue.size →
    Step n a (up a j fuel) := by
  induction fuel with
  | zero => intro a j h _ _; exact Step.refl h
  | succ fuel ih =>
    intro a j h hj hn
    unfold up
    simp only
    split
    · exact Step.refl h
    · have hi : (j - 1) / 2 < n := by omega
      have s1 := swap_step h ((j - 1) / 2) j hi hj hn
      exact s1.trans (ih ((j - 1) / 2) s1.1 hi (by rw [s1.2.1]; exact hn))

/-- the child chosen by one iteration of `down` -/
def child (pq : PQ) (i n : Nat) : Nat :=
  if 2 * i + 1 + 1 < n && pq.less (2 * i + 1 + 1) (2 * i + 1) then 2 * i + 1 + 1 else 2 * i + 1

theorem downLoop_succ (pq : PQ) (i n fuel : Nat) :
    downLoop pq i n (fuel + 1) =
      if 2 * i + 1 ≥ n then (pq, i)
      else if !pq.less (child pq i n) i then (pq, i)
      else downLoop (pq.swap i (child pq i n)) (child pq i n) n fuel := rfl

theorem child_spec (pq : PQ) (i n : Nat) (h : 2 * i + 1 < n) :
    (child pq i n = 2 * i + 1 ∨ child pq i n = 2 * i + 2) ∧ child pq i n < n ∧
    prio pq (child pq i n) ≤ prio pq (2 * i + 1) ∧
    (2 * i + 2 < n → prio pq (child pq i n) ≤ prio pq (2 * i + 2)) := by
  unfold child
  rw [show 2 * i + 1 + 1 = 2 * i + 2 from rfl]
  split
  · next c =>
    simp only [Bool.and_eq_true, decide_eq_true_eq, less_eq] at c
    refine ⟨Or.inr rfl, c.1, by omega, fun _ => by omega⟩
  · next c =>
    simp only [Bool.and_eq_true, decide_eq_true_eq, less_eq, not_and, Int.not_lt] at c
    refine ⟨Or.inl rfl, h, by omega, fun h2 => c h2⟩

theorem downLoop_step {n : Nat} (fuel : Nat) : ∀ {a : PQ} (i : Nat), WF' a → n ≤ a.queue.size →
    Step n a (downLoop a i n fuel).1 := by
  induction fuel with
  | zero => intro a i h _; exact Step.refl h
  | succ fuel ih =>
    intro a i h hn
    rw [downLoop_succ]
    split
    · exact Step.refl h
    · next hj1 =>
      obtain ⟨hc, hcn, -, -⟩ := child_spec a i n (by omega)
      generalize child a i n = j at *
      split
      · exact Step.refl h
      · have s1 := swap_step h i j (by omega) hcn hn
        exact s1.trans (ih _ s1.1 (by rw [s1.2.1]; exact hn))

theorem down_step {n : Nat} {a : PQ} (i : Nat) (h : WF' a) (hn : n ≤ a.queue.size) :
    Step n a (down a i n).1 := downLoop_step n i h hn

end Furiko.Heap
