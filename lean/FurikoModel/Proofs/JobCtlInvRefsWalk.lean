/-
Second walk through `Reconciler.sync`: when every pod CONTROLLED BY THE JOB that the controller can
see is well-named (pods that are not controlled by the Job are unconstrained: since the repair of F22
no lookup reads them), and the cached Job's refs are pairwise distinct and well-named, then so are the
refs of the Job value `sync` computes, and no recorded timestamp is cleared.
Core Lean only.
-/
import FurikoModel.Proofs.JobCtlInvRefsPure

set_option linter.unusedSimpArgs false
set_option linter.unusedVariables false

namespace Furiko.JobCtl
open Furiko Furiko.WQ Furiko.StatusLemmas Furiko.ParallelLemmas

/-- a pod that is controlled by the Job is well-named and carries a creation timestamp (a pod that
is not controlled by the Job — a foreign pod — is unconstrained) -/
def PodOK2 (j0 : JobObj) (d : PIndex) (p : PodObj) : Prop :=
  p.ownerUid = some j0.uid → PodNameOK j0 d p ∧ p.pod.creationTimestamp.isSome = true

/-- every pod of the Job on the server and in the pod cache is well-formed -/
structure PodsGood (j0 : JobObj) (s : Sys) : Prop where
  pods : ∀ p ∈ s.pods, PodOK2 j0 s.d p
  cache : ∀ p ∈ s.podCache, PodOK2 j0 s.d p
  cacheNodup : (podNames s.podCache).Nodup

theorem podTask_good {now : Time} {j0 : JobObj} {d : PIndex} {p : PodObj} {t : Task} (hp : PodOK2 j0 d p)
    (hown : p.ownerUid = some j0.uid)
    (h : podTask now p = some t) : TaskOK t ∧ RefOK j0 d t.ref ∧ t.name = p.pod.name := by
  have hok := podTask_ok h
  refine ⟨hok.1, ?_, hok.2⟩
  unfold podTask Pod.task at h
  cases hr : p.pod.taskRef now with
  | none => simp [hr] at h
  | some r =>
    simp only [hr, Option.some.injEq] at h
    subst h
    unfold Pod.taskRef at hr
    cases hf : p.pod.finishTimestamp with
    | none => simp [hf] at hr
    | some fin =>
      simp only [hf, Option.some.injEq] at hr
      subst hr
      obtain ⟨⟨idx, retry, h1, _, _, h4, h5, h6⟩, hc⟩ := hp hown
      refine ⟨⟨idx, h1, h5, ?_⟩, hc⟩
      simp only [h6, Option.getD_some]
      exact h4

theorem tasksForRefs_good {j0 jo : JobObj} {s : Sys} (hp : PodsGood j0 s) (hu : jo.uid = j0.uid) (refs : List TaskRef)
    (hnd : (refs.map (·.name)).Nodup) :
    TasksGood j0 s.d (tasksForRefs s jo refs) ∧ ∀ n ∈ (tasksForRefs s jo refs).map (·.name), n ∈ refs.map (·.name) := by
  have hsub := filterMap_names_sublist (getTaskForRef s jo) (·.name) (·.name)
    (fun x y h => (getTaskForRef_ok h).2) refs
  refine ⟨⟨hsub.nodup hnd, ?_⟩, fun n hn => hsub.subset hn⟩
  intro t ht
  unfold tasksForRefs at ht
  obtain ⟨r, _, hr⟩ := List.mem_filterMap.mp ht
  obtain ⟨p, hpm, hpt, hown⟩ := getTaskForRef_owned hr
  have hgood : PodOK2 j0 s.d p := by
    rcases hpm with h | h
    · exact hp.cache p (findPod_some h).1
    · exact hp.pods p (findPod_some h).1
  have := podTask_good hgood (hu ▸ hown) hpt
  exact ⟨this.1, this.2.1⟩

theorem tasksForRefsConfirmed_good {j0 jo : JobObj} {s : Sys} (hp : PodsGood j0 s) (hu : jo.uid = j0.uid)
    (refs : List TaskRef)
    (hnd : (refs.map (·.name)).Nodup) : TasksGood j0 s.d (tasksForRefsConfirmed s jo refs) := by
  have hsub := filterMap_names_sublist (getTaskForRefConfirmed s jo) (·.name) (·.name)
    (fun x y h => (getTaskForRefConfirmed_ok h).2) refs
  refine ⟨hsub.nodup hnd, ?_⟩
  intro t ht
  unfold tasksForRefsConfirmed at ht
  obtain ⟨r, _, hr⟩ := List.mem_filterMap.mp ht
  obtain ⟨p, hpm, hpt, hown⟩ := getTaskForRefConfirmed_owned hr
  have hgood : PodOK2 j0 s.d p := by
    rcases hpm with h | h
    · exact hp.cache p (findPod_some h).1
    · exact hp.pods p (findPod_some h).1
  have := podTask_good hgood (hu ▸ hown) hpt
  exact ⟨this.1, this.2.1⟩

theorem newPod_good {j0 jo : JobObj} {d : PIndex} (hjo : VerOK j0 jo) {idx : PIndex} {retry : Int}
    (hreq : CreateReq d jo idx retry) (t : Time) : PodOK2 j0 d (newPod jo idx retry t) := by
  obtain ⟨h1, _, h3, h4⟩ := createReq_facts hreq
  refine fun _ => ⟨⟨idx, retry, ?_, h3, ?_, ?_, rfl, rfl⟩, rfl⟩
  · rw [← indexes_of_template hjo.template]; exact h1
  · rw [← maxAttempts_of_template hjo.template]; exact h4
  · show taskName jo.name idx.hash retry = _; rw [hjo.name]

/-! ### `PodsGood` along the micro-steps of a pass -/

theorem PodsGood.frame {j0 : JobObj} {s s' : Sys} (h : PodsGood j0 s) (hf : Frame s s') : PodsGood j0 s' :=
  ⟨by rw [hf.pods, hf.d]; exact h.pods, by rw [hf.podCache, hf.d]; exact h.cache,
   by rw [hf.podCache]; exact h.cacheNodup⟩

theorem PodsGood.of_pods {j0 : JobObj} {s s' : Sys} (h : PodsGood j0 s) (hs : Static s s')
    (hp : ∀ p ∈ s'.pods, PodOK2 j0 s.d p) : PodsGood j0 s' :=
  ⟨by rw [hs.d]; exact hp, by rw [hs.podCache, hs.d]; exact h.cache, by rw [hs.podCache]; exact h.cacheNodup⟩

theorem PodOK2.markDeleted {j0 : JobObj} {d : PIndex} {p : PodObj} (h : PodOK2 j0 d p) (t : Time) :
    PodOK2 j0 d { p with pod := { p.pod with deletionTimestamp := some t } } :=
  fun ho => ⟨(h ho).1.transfer rfl rfl rfl, (h ho).2⟩

theorem PodsGood.micro {j0 jo : JobObj} {sp s s' : Sys} (h : PodsGood j0 s) (hjo : VerOK j0 jo)
    (hm : Micro jo sp s s') : PodsGood j0 s' := by
  cases hm with
  | frame hf => exact h.frame hf
  | create idx retry hreq _ =>
    rcases apiCreatePod_spec s jo idx retry with hs | hs
    · exact h.frame hs.1
    · refine h.of_pods hs.1.static ?_
      intro p hp
      rw [hs.1.pods] at hp
      rcases List.mem_append.mp hp with hp | hp
      · exact h.pods p hp
      · simp only [List.mem_singleton] at hp; subst hp; exact newPod_good hjo hreq _
  | delPod name force =>
    rcases apiDeletePod_spec s name force with hs | ⟨p, _, hs, _⟩ | ⟨p, _, _, _, hs⟩
    · exact h.frame hs
    · refine h.of_pods hs.static ?_
      intro q hq; rw [hs.pods] at hq; exact h.pods q (mem_delPod hq).1
    · refine h.of_pods hs.static ?_
      intro q hq; rw [hs.pods] at hq
      rcases mem_setPod hq with hq | hq
      · subst hq; exact (h.pods p (findPod_some hs.found).1).markDeleted _
      · exact h.pods q hq
  | delJob =>
    rcases apiDeleteJob_spec s jo with hs | ⟨c, _, _, _, hs⟩ | ⟨c, _, _, hs⟩
    · exact h.frame hs
    · exact h.of_pods hs.static (by rw [hs.pods]; exact h.pods)
    · exact h.of_pods hs.static (by rw [hs.pods]; exact h.pods)
  | updJob _ =>
    rcases apiUpdateJob_spec s jo { jo with job := (sync sp jo).2.1, finalizer := (sync sp jo).2.2.1 } with
      hs | ⟨c, _, _, hs | hs⟩
    · exact h.frame hs
    · exact h.of_pods hs.1.static (by rw [hs.1.pods]; exact h.pods)
    · exact h.of_pods hs.1.static (by rw [hs.1.pods]; exact h.pods)
  | updStatus =>
    rcases apiUpdateJobStatus_spec s jo { jo with job := (sync sp jo).2.1 } with hs | ⟨c, _, _, hs⟩
    · exact h.frame hs
    · exact h.of_pods hs.static (by rw [hs.pods]; exact h.pods)
  | updStatusOn s1 hs1 hs hok =>
    rcases apiUpdateJobStatus_spec s { jo with rv := updatedRv s jo } { jo with job := (sync sp jo).2.1 } with hs | ⟨c, _, _, hs⟩
    · exact h.frame hs
    · exact h.of_pods hs.static (by rw [hs.pods]; exact h.pods)

theorem PodsGood.micros {j0 jo : JobObj} {sp s s' : Sys} (h : PodsGood j0 s) (hjo : VerOK j0 jo)
    (hm : Micros jo sp s s') : PodsGood j0 s' := by
  induction hm with
  | refl => exact h
  | tail _ hm ih => exact ih.micro hjo hm

/-! ### Job values along `sync` -/

/-- `b` is good and keeps what `a` recorded -/
def GK (j0 : JobObj) (d : PIndex) (a b : Job) : Prop := Good j0 d b ∧ RefsKeep a.status.tasks b.status.tasks

theorem GK.refl {j0 : JobObj} {d : PIndex} {a : Job} (h : Good j0 d a) : GK j0 d a a := ⟨h, RefsKeep.refl _⟩
theorem GK.trans {j0 : JobObj} {d : PIndex} {a b c : Job} (h1 : GK j0 d a b) (h2 : GK j0 d b c) : GK j0 d a c :=
  ⟨h2.1, h1.2.trans h2.2⟩

/-- same status, possibly another spec -/
theorem GK.of_status {j0 : JobObj} {d : PIndex} {a b : Job} (h : Good j0 d a) (e : b.status = a.status) :
    GK j0 d a b := by
  refine ⟨⟨?_, ?_, ?_⟩, ?_⟩
  · unfold refNames; rw [e]; exact h.nodup
  · rw [e]; exact h.refs
  · rw [e]; exact h.created
  · rw [e]; exact RefsKeep.refl _

theorem updateJobStatusFromTaskRefs_tasks {now : Time} {d : PIndex} {rj nj : Job}
    (h : updateJobStatusFromTaskRefs now d rj = some nj) :
    nj.status.tasks = rj.status.tasks ∧ nj.status.createdTasks = rj.status.createdTasks := by
  unfold updateJobStatusFromTaskRefs updateJobStatusFromTaskRefsWith at h
  cases ht : rj.template with
  | none => simp [ht] at h
  | some t =>
    simp only [ht, Option.some.injEq] at h
    subst h
    simp [statusBeforePhase]

theorem GK.of_tasks {j0 : JobObj} {d : PIndex} {a b : Job} (h : Good j0 d a)
    (e : b.status.tasks = a.status.tasks) (ec : b.status.createdTasks = a.status.createdTasks) : GK j0 d a b := by
  refine ⟨⟨?_, ?_, ?_⟩, ?_⟩
  · unfold refNames; rw [e]; exact h.nodup
  · rw [e]; exact h.refs
  · rw [e, ec]; exact h.created
  · rw [e]; exact RefsKeep.refl _

theorem syncJobStatusFromTaskRefs_gk {j0 : JobObj} (s : Sys) (key : String) (rj : Job) (h : Good j0 s.d rj) :
    GK j0 s.d rj (syncJobStatusFromTaskRefs s key rj).2 := by
  unfold syncJobStatusFromTaskRefs
  cases hu : updateJobStatusFromTaskRefs s.clock s.d rj with
  | none => exact GK.refl h
  | some newRj =>
    have := updateJobStatusFromTaskRefs_tasks hu
    have hgk := GK.of_tasks h this.1 this.2
    simp only
    split
    · split
      · split
        · exact hgk
        · exact hgk
      · exact hgk
    · exact hgk

theorem updateTaskRefStatus_gk {j0 : JobObj} (s : Sys) (key : String) (rj : Job) (tasks : List Task)
    (h : Good j0 s.d rj) (ht : TasksGood j0 s.d tasks) :
    GK j0 s.d rj (updateTaskRefStatus s key rj tasks).2 := by
  unfold updateTaskRefStatus
  have h1 := updateJobTaskRefs_good s.clock rj tasks h ht
  exact GK.trans h1 (syncJobStatusFromTaskRefs_gk s key _ h1.1)

theorem markDeleted_gk {j0 : JobObj} {d : PIndex} (rj : Job) (names : List String) (st : TaskRef → TaskStatus)
    (h : Good j0 d rj) :
    GK j0 d rj (markDeleted rj names (fun r => { r with deletedStatus := some (st r) })) := by
  unfold markDeleted
  refine ⟨h.map _ ?_, RefsKeep.of_map _ ?_⟩
  · intro r; split <;> exact ⟨rfl, rfl, rfl, rfl⟩
  · intro r; split <;> exact ⟨rfl, id, id, id⟩

theorem deletedStatusIfNotSet_gk {j0 : JobObj} {d : PIndex} (rj : Job) (name : String) (st : TaskStatus)
    (h : Good j0 d rj) : GK j0 d rj (updateTaskRefDeletedStatusIfNotSet rj name st) := by
  unfold updateTaskRefDeletedStatusIfNotSet
  refine ⟨h.map _ ?_, RefsKeep.of_map _ ?_⟩
  · intro r; split <;> exact ⟨rfl, rfl, rfl, rfl⟩
  · intro r; split <;> exact ⟨rfl, id, id, id⟩

theorem foldl_deletedStatus_gk {j0 : JobObj} {d : PIndex} (st : TaskStatus) (tasks : List Task) : ∀ (rj : Job),
    Good j0 d rj →
    GK j0 d rj (tasks.foldl (fun acc t => updateTaskRefDeletedStatusIfNotSet acc t.name st) rj) := by
  induction tasks with
  | nil => intro rj h; exact GK.refl h
  | cons t rest ih =>
    intro rj h
    have h1 := deletedStatusIfNotSet_gk rj t.name st h
    exact GK.trans h1 (ih _ h1.1)

/-! ### task creation -/

/-- the name a creation request stands for -/
def reqName (jo : JobObj) (r : CreationRequest) : String := taskName jo.name r.index.hash r.retryIndex

theorem TasksGood.snoc {j0 : JobObj} {d : PIndex} {tasks : List Task} {t : Task} (h : TasksGood j0 d tasks)
    (ht : TaskOK t ∧ RefOK j0 d t.ref) (hn : t.name ∉ tasks.map (·.name)) : TasksGood j0 d (tasks ++ [t]) := by
  refine ⟨?_, ?_⟩
  · rw [List.map_append, List.nodup_append]
    refine ⟨h.nodup, by simp, ?_⟩
    intro a ha b hb e
    simp only [List.map_cons, List.map_nil, List.mem_singleton] at hb
    subst hb; subst e; exact hn ha
  · intro x hx
    rcases List.mem_append.mp hx with hx | hx
    · exact h.ok x hx
    · simp only [List.mem_singleton] at hx; subst hx; exact ht

/-- what the creation loop did to the working Job: nothing, or it set the admission-error
annotation — which happens only when the pod cache holds a pod that is not controlled by the Job -/
def AdmOr (jo : JobObj) (cache : List PodObj) (rj rj1 : Job) : Prop :=
  rj1 = rj ∨ (rj1 = { rj with admissionError := true } ∧ ∃ p ∈ cache, p.ownerUid ≠ some jo.uid)

theorem AdmOr.status {jo : JobObj} {cache : List PodObj} {rj rj1 : Job} (h : AdmOr jo cache rj rj1) :
    rj1.status = rj.status := by
  rcases h with h | ⟨h, _⟩ <;> rw [h]

/-- without a foreign pod in the pod cache the working Job is unchanged -/
theorem AdmOr.eq_of_owned {jo : JobObj} {cache : List PodObj} {rj rj1 : Job} (h : AdmOr jo cache rj rj1)
    (ho : ∀ p ∈ cache, p.ownerUid = some jo.uid) : rj1 = rj := by
  rcases h with h | ⟨_, p, hp, hn⟩
  · exact h
  · exact absurd (ho p hp) hn

theorem AdmOr.trans {jo : JobObj} {cache : List PodObj} {a b c : Job} (h1 : AdmOr jo cache a b)
    (h2 : AdmOr jo cache b c) : AdmOr jo cache a c := by
  rcases h1 with rfl | ⟨rfl, hx⟩
  · exact h2
  · rcases h2 with rfl | ⟨rfl, _⟩
    · exact Or.inr ⟨rfl, hx⟩
    · exact Or.inr ⟨rfl, hx⟩

theorem syncCreateTask_good {j0 : JobObj} (s : Sys) (jo : JobObj) (rj : Job) (tasks : List Task) (idx : PIndex)
    (retry : Int) (hp : PodsGood j0 s) (hjo : VerOK j0 jo) (hreq : CreateReq s.d jo idx retry)
    (ht : TasksGood j0 s.d tasks) (hn : taskName jo.name idx.hash retry ∉ tasks.map (·.name)) :
    ∀ rj1 tasks1, (syncCreateTask s jo rj tasks idx retry).2 = some (rj1, tasks1) →
      AdmOr jo s.podCache rj rj1 ∧ TasksGood j0 s.d tasks1 ∧
      (tasks1 = tasks ∨
       ∃ t p, tasks1 = tasks ++ [t] ∧ t.name = taskName jo.name idx.hash retry ∧ podTask s.clock p = some t ∧
        ((p = newPod jo idx retry (nowT s) ∧ taskName jo.name idx.hash retry ∉ podNames s.pods) ∨
         (p ∈ s.podCache ∧ p.ownerUid = some jo.uid))) := by
  intro rj1 tasks1
  unfold syncCreateTask
  have hspec := apiCreatePod_spec s jo idx retry
  have hst := (Micro.create (sp := s) s idx retry hreq (CreatePhase.refl _)).static
  generalize apiCreatePod s jo idx retry = r at hspec hst
  obtain ⟨s1, res⟩ := r
  cases res with
  | ok p =>
    simp only
    intro h
    have hpe : p = newPod jo idx retry (nowT s) := by
      rcases hspec with hs | hs
      · exact absurd rfl (hs.2 p)
      · rcases hs.2 with h2 | h2
        · simp only [CreateRes.ok.injEq] at h2; exact h2
        · cases h2
    have hfr : taskName jo.name idx.hash retry ∉ podNames s.pods := by
      rcases hspec with hs | hs
      · exact absurd rfl (hs.2 p)
      · exact (findPod_eq_none_iff _ _).mp hs.1.fresh
    cases hpt : podTask s.clock p with
    | none => simp [hpt] at h
    | some t =>
      simp only [hpt, Option.map_some, Option.some.injEq, Prod.mk.injEq] at h
      obtain ⟨rfl, rfl⟩ := h
      have hown : p.ownerUid = some j0.uid := by rw [hpe, ← hjo.uid]; rfl
      have hg := podTask_good (hpe ▸ newPod_good hjo hreq (nowT s)) hown hpt
      have hname : t.name = taskName jo.name idx.hash retry := by rw [hg.2.2, hpe]; rfl
      exact ⟨Or.inl rfl, ht.snoc ⟨hg.1, hg.2.1⟩ (by rw [hname]; exact hn),
        Or.inr ⟨t, p, rfl, hname, hpt, Or.inl ⟨hpe, hfr⟩⟩⟩
  | err => simp only; intro h; cases h
  | «exists» =>
    simp only
    cases hc : findPod s1.podCache (taskName jo.name idx.hash retry) with
    | none => simp only; intro h; cases h
    | some p =>
      simp only
      have hpc := findPod_some hc
      rw [hst.podCache] at hpc
      by_cases hown : p.ownerUid = some jo.uid
      · rw [if_pos hown]
        intro h
        cases hpt : podTask s.clock p with
        | none => simp [hpt] at h
        | some t =>
          simp only [hpt, Option.map_some, Option.some.injEq, Prod.mk.injEq] at h
          obtain ⟨rfl, rfl⟩ := h
          have hg := podTask_good (hp.cache p hpc.1) (hjo.uid ▸ hown) hpt
          have hname : t.name = taskName jo.name idx.hash retry := by rw [hg.2.2]; exact hpc.2
          exact ⟨Or.inl rfl, ht.snoc ⟨hg.1, hg.2.1⟩ (by rw [hname]; exact hn),
            Or.inr ⟨t, p, rfl, hname, hpt, Or.inr ⟨hpc.1, hown⟩⟩⟩
      · rw [if_neg hown]
        intro h
        simp only [Option.some.injEq, Prod.mk.injEq] at h
        obtain ⟨rfl, rfl⟩ := h
        exact ⟨Or.inr ⟨rfl, p, hpc.1, hown⟩, ht, Or.inl rfl⟩

/-- `syncCreateTask` only ever adds a pod to the server -/
theorem syncCreateTask_pods_sup (s : Sys) (jo : JobObj) (rj : Job) (tasks : List Task) (idx : PIndex) (retry : Int) :
    ∀ n ∈ podNames s.pods, n ∈ podNames (syncCreateTask s jo rj tasks idx retry).1.pods := by
  have hfst : (syncCreateTask s jo rj tasks idx retry).1 = (apiCreatePod s jo idx retry).1 := by
    unfold syncCreateTask
    generalize apiCreatePod s jo idx retry = r
    obtain ⟨s1, res⟩ := r
    cases res with
    | ok p => rfl
    | err => rfl
    | «exists» =>
      simp only
      split
      · rfl
      · split <;> rfl
  rw [hfst]
  intro n hn
  rcases apiCreatePod_spec s jo idx retry with hs | hs
  · rw [hs.1.pods]; exact hn
  · rw [hs.1.pods]
    unfold podNames at hn ⊢
    rw [List.map_append]
    exact List.mem_append_left _ hn

/-- a task added by the creation loop: it stands for one of the requests and comes from the pod just
created (`NewPod`: controlled by the Job; its name was not on the server — not among `P0`, the names on
the server when the loop started) or from a pod of the pod cache that is controlled by the Job -/
def NewTask (jo : JobObj) (cache : List PodObj) (P0 : List String) (names : List String) (t : Task) : Prop :=
  t.name ∈ names ∧ ∃ p now, podTask now p = some t ∧
    (((∃ idx retry tm, p = newPod jo idx retry tm) ∧ p.pod.name ∉ P0) ∨ (p ∈ cache ∧ p.ownerUid = some jo.uid))

theorem createLoop_good {j0 : JobObj} (jo : JobObj) (d : PIndex) (cache : List PodObj) (P0 : List String)
    (hjo : VerOK j0 jo) :
    ∀ (reqs : List CreationRequest) (s : Sys) (rj : Job) (tasks : List Task) (minE : Option Time), s.d = d →
    s.podCache = cache → (∀ n ∈ P0, n ∈ podNames s.pods) →
    PodsGood j0 s → (∀ r ∈ reqs, CreateReq d jo r.index r.retryIndex) → TasksGood j0 d tasks →
    (reqs.map (reqName jo)).Nodup → (∀ r ∈ reqs, reqName jo r ∉ tasks.map (·.name)) →
    ∀ rj1 tasks1 m, (createLoop jo reqs s rj tasks minE).2 = some (rj1, tasks1, m) →
      AdmOr jo cache rj rj1 ∧ TasksGood j0 d tasks1 ∧
      (∀ t ∈ tasks1, t ∈ tasks ∨ NewTask jo cache P0 (reqs.map (reqName jo)) t) ∧ (∀ t ∈ tasks, t ∈ tasks1) := by
  intro reqs
  induction reqs with
  | nil =>
    intro s rj tasks minE _ _ _ _ _ ht _ _ rj1 tasks1 m h
    unfold createLoop at h
    simp only [Option.some.injEq, Prod.mk.injEq] at h
    obtain ⟨rfl, rfl, _⟩ := h
    exact ⟨Or.inl rfl, ht, fun t h => Or.inl h, fun t h => h⟩
  | cons r rest ih =>
    intro s rj tasks minE hd hcache hsup hp hreq ht hnd hfresh rj1 tasks1 m h
    rw [createLoop_cons] at h
    simp only [List.map_cons, List.nodup_cons] at hnd
    have hreq' : ∀ x ∈ rest, CreateReq d jo x.index x.retryIndex := fun x hx => hreq x (List.mem_cons_of_mem _ hx)
    have widen : ∀ t, NewTask jo cache P0 (rest.map (reqName jo)) t →
        NewTask jo cache P0 ((r :: rest).map (reqName jo)) t :=
      fun t ⟨h1, h2⟩ => ⟨List.mem_cons_of_mem _ h1, h2⟩
    by_cases hsk : skipReq r s = true
    · rw [if_pos hsk] at h
      have := ih s rj tasks _ hd hcache hsup hp hreq' ht hnd.2 (fun x hx => hfresh x (List.mem_cons_of_mem _ hx)) rj1 tasks1 m h
      exact ⟨this.1, this.2.1, fun t ht' => (this.2.2.1 t ht').imp id (widen t), this.2.2.2⟩
    · rw [if_neg hsk] at h
      have hr : CreateReq s.d jo r.index r.retryIndex := by rw [hd]; exact hreq r List.mem_cons_self
      have h1 := syncCreateTask_good s jo rj tasks r.index r.retryIndex hp hjo hr (hd ▸ ht)
        (hfresh r List.mem_cons_self)
      have hm := (syncCreateTask_spec s jo s rj tasks r.index r.retryIndex hr (fun t h' => (ht.ok t h').1) (CreatePhase.refl _)).1
      have hsupm := syncCreateTask_pods_sup s jo rj tasks r.index r.retryIndex
      generalize syncCreateTask s jo rj tasks r.index r.retryIndex = res at h h1 hm hsupm
      obtain ⟨s1, o⟩ := res
      cases o with
      | none => simp only at h; cases h
      | some v =>
        obtain ⟨rj', tasks'⟩ := v
        simp only at h
        obtain ⟨hst, ht', hcase⟩ := h1 rj' tasks' rfl
        rw [hcache] at hst
        have hp1 : PodsGood j0 s1 := hp.micros hjo hm
        have hd1 : s1.d = d := hm.static.d.trans hd
        have hc1 : s1.podCache = cache := hm.static.podCache.trans hcache
        have hsup1 : ∀ n ∈ P0, n ∈ podNames s1.pods := fun n hn => hsupm n (hsup n hn)
        rcases hcase with htasks | ⟨t0, p0, htasks, hname, hpt, hsrc⟩
        · -- the name is occupied by a foreign pod: admission error, no task added
          subst htasks
          have := ih s1 rj' tasks' _ hd1 hc1 hsup1 hp1 hreq' (hd ▸ ht') hnd.2
            (fun x hx => hfresh x (List.mem_cons_of_mem _ hx)) rj1 tasks1 m h
          exact ⟨hst.trans this.1, this.2.1, fun t ht1 => (this.2.2.1 t ht1).imp id (widen t), this.2.2.2⟩
        · have hfresh' : ∀ x ∈ rest, reqName jo x ∉ tasks'.map (·.name) := by
            intro x hx hmem
            rw [htasks, List.map_append] at hmem
            rcases List.mem_append.mp hmem with hmem | hmem
            · exact hfresh x (List.mem_cons_of_mem _ hx) hmem
            · simp only [List.map_cons, List.map_nil, List.mem_singleton] at hmem
              apply hnd.1
              rw [List.mem_map]
              exact ⟨x, hx, by rw [hmem, hname]; rfl⟩
          have := ih s1 rj' tasks' _ hd1 hc1 hsup1 hp1 hreq' (hd ▸ ht') hnd.2 hfresh' rj1 tasks1 m h
          refine ⟨hst.trans this.1, this.2.1, ?_, fun t htm => this.2.2.2 t (by rw [htasks]; exact List.mem_append_left _ htm)⟩
          intro t ht1
          rcases this.2.2.1 t ht1 with hin | hnew
          · rw [htasks] at hin
            rcases List.mem_append.mp hin with hin | hin
            · exact Or.inl hin
            · simp only [List.mem_singleton] at hin
              subst hin
              refine Or.inr ⟨by rw [hname]; exact List.mem_cons_self, p0, _, hpt, ?_⟩
              rcases hsrc with h' | h'
              · refine Or.inl ⟨⟨_, _, _, h'.1⟩, ?_⟩
                intro hmem
                apply h'.2
                rw [h'.1] at hmem
                exact hsup _ hmem
              · exact Or.inr ⟨hcache ▸ h'.1, h'.2⟩
          · exact Or.inr (widen t hnew)

/-! ### requests of one computation have distinct, fresh names -/

theorem inj_on_of_nodup_map {α β : Type} {f : α → β} : ∀ {l : List α}, (l.map f).Nodup →
    ∀ {a b : α}, a ∈ l → b ∈ l → f a = f b → a = b
  | [], _, _, _, h, _, _ => by cases h
  | x :: rest, hnd, a, b, ha, hb, e => by
    simp only [List.map_cons, List.nodup_cons] at hnd
    rcases List.mem_cons.mp ha with rfl | ha'
    · rcases List.mem_cons.mp hb with rfl | hb'
      · rfl
      · exact absurd (e ▸ List.mem_map_of_mem hb') hnd.1
    · rcases List.mem_cons.mp hb with rfl | hb'
      · exact absurd (e ▸ List.mem_map_of_mem ha') hnd.1
      · exact inj_on_of_nodup_map hnd.2 ha' hb' e

theorem nodup_of_nodup_map {α β : Type} (f : α → β) : ∀ {l : List α}, (l.map f).Nodup → l.Nodup
  | [], _ => by simp
  | x :: rest, h => by
    simp only [List.map_cons, List.nodup_cons] at h
    simp only [List.nodup_cons]
    exact ⟨fun hx => h.1 (List.mem_map_of_mem hx), nodup_of_nodup_map f h.2⟩

theorem nodup_map_of_inj_on {α β : Type} {f : α → β} : ∀ {l : List α}, l.Nodup →
    (∀ a ∈ l, ∀ b ∈ l, f a = f b → a = b) → (l.map f).Nodup
  | [], _, _ => by simp
  | x :: rest, hnd, hinj => by
    simp only [List.nodup_cons] at hnd
    simp only [List.map_cons, List.nodup_cons]
    refine ⟨?_, nodup_map_of_inj_on hnd.2 (fun a ha b hb => hinj a (List.mem_cons_of_mem _ ha) b (List.mem_cons_of_mem _ hb))⟩
    intro hmem
    obtain ⟨y, hy, hxy⟩ := List.mem_map.mp hmem
    have := hinj y (List.mem_cons_of_mem _ hy) x List.mem_cons_self hxy
    subst this
    exact hnd.1 hy

theorem missingFrom_indexes_sublist (d : PIndex) (job : Job) (indexes : List PIndex) :
    ∀ (rest : List PIndex) (p : Nat), ((missingFrom d job indexes rest p).map (·.index)).Sublist rest
  | [], _ => by simp [missingFrom]
  | i :: rest, p => by
    unfold missingFrom
    simp only
    split
    · exact (missingFrom_indexes_sublist d job indexes rest (p + 1)).cons _
    · split
      · exact (missingFrom_indexes_sublist d job indexes rest (p + 1)).cons _
      · simp only [List.map_cons]
        exact (missingFrom_indexes_sublist d job indexes rest (p + 1)).cons_cons _

theorem reqs_names {j0 : JobObj} {d : PIndex} (hwf : WF2 j0 d) {jo : JobObj} (hjo : VerOK j0 jo)
    (hrefs : ∀ r ∈ jo.job.status.tasks, RefOK j0 d r) {reqs : List CreationRequest}
    (h : computeMissingIndexesForCreation d jo.job (jo.job.indexes d) = some reqs) :
    (reqs.map (reqName jo)).Nodup ∧ ∀ r ∈ reqs, reqName jo r ∉ jo.job.status.tasks.map (·.name) := by
  have hidx := indexes_of_template hjo.template d
  unfold computeMissingIndexesForCreation at h
  split at h
  · cases h
  · cases h
    have hsub := missingFrom_indexes_sublist d jo.job (jo.job.indexes d) (jo.job.indexes d) 0
    have hnc : ((missingFrom d jo.job (jo.job.indexes d) (jo.job.indexes d) 0).map (·.index.hash)).Nodup := by
      have h1 : ((missingFrom d jo.job (jo.job.indexes d) (jo.job.indexes d) 0).map (·.index)).map (·.hash) =
          (missingFrom d jo.job (jo.job.indexes d) (jo.job.indexes d) 0).map (·.index.hash) := by
        rw [List.map_map]; rfl
      rw [← h1]
      have := hwf.noCollision
      unfold NoCollision at this
      rw [← hidx] at this
      exact (hsub.map _).nodup this
    have hmemidx : ∀ r ∈ missingFrom d jo.job (jo.job.indexes d) (jo.job.indexes d) 0, r.index ∈ j0.job.indexes d := by
      intro r hr
      rw [← hidx]
      exact hsub.subset (List.mem_map_of_mem hr)
    refine ⟨?_, ?_⟩
    · refine nodup_map_of_inj_on (nodup_of_nodup_map _ hnc) ?_
      intro a ha b hb e
      unfold reqName at e
      rw [hjo.name] at e
      have := taskName_inj (hwf.noDash _ (hmemidx a ha)) (hwf.noDash _ (hmemidx b hb)) e
      exact inj_on_of_nodup_map hnc ha hb this.1
    · intro r hr
      obtain ⟨k, hk, _, _, hreq⟩ := (mem_missingFrom d jo.job _ _ 0 r).mp hr
      have hri : r.retryIndex = nextRetryIndex d jo.job.status.tasks r.index.hash := by rw [hreq]; rfl
      unfold reqName
      rw [hri, hjo.name]
      exact fresh_name hwf hrefs (hmemidx r hr)

/-! ### sorted pod listing -/

theorem insertPodSorted_perm (p : PodObj) : ∀ (l : List PodObj), (insertPodSorted p l).Perm (p :: l)
  | [] => List.Perm.refl _
  | x :: rest => by
    unfold insertPodSorted
    split
    · exact List.Perm.refl _
    · exact ((insertPodSorted_perm p rest).cons x).trans (List.Perm.swap p x rest)

theorem foldl_insertPodSorted_perm : ∀ (l acc : List PodObj),
    (l.foldl (fun acc p => insertPodSorted p acc) acc).Perm (l ++ acc)
  | [], acc => List.Perm.refl _
  | x :: rest, acc => by
    simp only [List.foldl_cons, List.cons_append]
    refine (foldl_insertPodSorted_perm rest (insertPodSorted x acc)).trans ?_
    exact ((insertPodSorted_perm x acc).append_left rest).trans List.perm_middle

theorem sortPods_perm (l : List PodObj) : (sortPods l).Perm l := by
  unfold sortPods
  simpa using foldl_insertPodSorted_perm l []

theorem append_podTasks_good {j0 : JobObj} {d : PIndex} (now : Time) (tasks : List Task) (F : List PodObj)
    (hF : (F.map (·.pod.name)).Nodup) (hFc : ∀ p ∈ F, PodOK2 j0 d p) (hFo : ∀ p ∈ F, p.ownerUid = some j0.uid)
    (hnot : ∀ p ∈ F, tasks.any (fun x => decide (x.name = p.pod.name)) = false) (ht : TasksGood j0 d tasks) :
    TasksGood j0 d (tasks ++ F.filterMap (podTask now)) := by
  have hsub := filterMap_names_sublist (podTask now) (·.name) (·.pod.name) (fun x y h => (podTask_ok h).2) F
  refine ⟨?_, ?_⟩
  · rw [List.map_append, List.nodup_append]
    refine ⟨ht.nodup, hsub.nodup hF, ?_⟩
    intro a ha b hb e
    subst e
    obtain ⟨p, hpf, rfl⟩ := List.mem_map.mp (hsub.subset hb)
    obtain ⟨t, htm, htn⟩ := List.mem_map.mp ha
    have : tasks.any (fun x => decide (x.name = p.pod.name)) = true :=
      List.any_eq_true.mpr ⟨t, htm, by simpa using htn⟩
    rw [hnot p hpf] at this; cases this
  · intro t htm
    rcases List.mem_append.mp htm with h | h
    · exact ht.ok t h
    · obtain ⟨p, hpf, hpt⟩ := List.mem_filterMap.mp h
      have := podTask_good (hFc p hpf) (hFo p hpf) hpt
      exact ⟨this.1, this.2.1⟩

theorem adoptUnrecordedTasks_good {j0 : JobObj} (s : Sys) (jo : JobObj) (tasks : List Task)
    (hp : PodsGood j0 s) (hu : jo.uid = j0.uid) (ht : TasksGood j0 s.d tasks) :
    TasksGood j0 s.d (adoptUnrecordedTasks s jo tasks) := by
  unfold adoptUnrecordedTasks
  simp only
  have hperm := sortPods_perm s.podCache
  have hsortnd : ((sortPods s.podCache).map (·.pod.name)).Nodup := (hperm.map _).nodup_iff.mpr hp.cacheNodup
  refine append_podTasks_good s.clock tasks _ ((List.filter_sublist.map _).nodup hsortnd) ?_ ?_ ?_ ht
  · intro p hpf
    exact hp.cache p (hperm.subset (List.mem_filter.mp hpf).1)
  · intro p hpf
    have := (List.mem_filter.mp hpf).2
    simp only [Bool.and_eq_true, Bool.not_eq_true', decide_eq_true_eq] at this
    rw [← hu]; exact this.2
  · intro p hpf
    have := (List.mem_filter.mp hpf).2
    simp only [Bool.and_eq_true, Bool.not_eq_true', decide_eq_true_eq] at this
    exact this.1.1.2

end Furiko.JobCtl
