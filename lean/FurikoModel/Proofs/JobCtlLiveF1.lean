/-
Liveness of the job controller, force-delete part 1: forced pod deletes that succeed.  A forced
`apiDeletePod` without a pending fault removes exactly the pod it names (`apiDeletePod_force`), and
`deleteTasks … true` removes the pods of all its tasks (`deleteTasks_force`); caches stay in sync with the
server, the events are deletes of pods that were on the server.  Core Lean only.
-/
import FurikoModel.Proofs.JobCtlLiveK9

set_option linter.unusedSimpArgs false
set_option linter.unusedVariables false

namespace Furiko.JobCtl.Live
open Furiko Furiko.JobCtl Furiko.WQ Furiko.StatusLemmas Furiko.JobCtlPlan

/-- the pod is not named in `N` -/
def keepPod (N : List String) (p : PodObj) : Bool := !(N.contains p.pod.name)

/-- the effect of successful forced deletes: the pods named in `N` are removed -/
structure Removed (s s' : Sys) (N : List String) : Prop where
  pods : s'.pods = s.pods.filter (keepPod N)
  clock : s'.clock = s.clock
  d : s'.d = s.d
  cfg : s'.cfg = s.cfg
  job : s'.job = s.job
  jobEvs : s'.jobEvs = s.jobEvs
  jobCache : s'.jobCache = s.jobCache
  podCache : s'.podCache = s.podCache
  q : s'.q = s.q
  psync : PSync s → PSync s'
  nofault : NoFault s'
  evs : ∀ e ∈ s'.podEvs, e ∈ s.podEvs ∨ ∃ p0 ∈ s.pods, e = PEv.delete p0

theorem keepPod_nil (p : PodObj) : keepPod [] p = true := by unfold keepPod; simp

theorem Removed.refl (s : Sys) (h : NoFault s) : Removed s s [] :=
  ⟨by
    symm
    apply List.filter_eq_self.mpr
    intro p _
    exact keepPod_nil p, rfl, rfl, rfl, rfl, rfl, rfl, rfl, rfl, id, h, fun e he => Or.inl he⟩

theorem Removed.trans {a b c : Sys} {A B : List String} (h1 : Removed a b A) (h2 : Removed b c B) : Removed a c (A ++ B) := by
  refine ⟨?_, h2.clock.trans h1.clock, h2.d.trans h1.d, h2.cfg.trans h1.cfg, h2.job.trans h1.job,
    h2.jobEvs.trans h1.jobEvs, h2.jobCache.trans h1.jobCache, h2.podCache.trans h1.podCache, h2.q.trans h1.q,
    fun h => h2.psync (h1.psync h), h2.nofault, ?_⟩
  · rw [h2.pods, h1.pods, List.filter_filter]
    apply List.filter_congr
    intro p _
    unfold keepPod
    simp only [List.contains_append, Bool.not_or]
    exact Bool.and_comm _ _
  · intro e he
    rcases h2.evs e he with h | ⟨p0, hp0, e1⟩
    · exact h1.evs e h
    · rw [h1.pods] at hp0
      exact Or.inr ⟨p0, (List.mem_filter.mp hp0).1, e1⟩

/-- one forced pod delete with no fault pending -/
theorem apiDeletePod_force (s : Sys) (n : String) (hnf : NoFault s) :
    (apiDeletePod s n true).2 = true ∧ Removed s (apiDeletePod s n true).1 [n] := by
  obtain ⟨f, fs, dr, he, hf⟩ := JobCtlPlan.apiDeletePod_eq s n true
  obtain ⟨hf1, hf2, hf3⟩ := hf hnf
  subst hf1
  subst hf2
  rw [he]
  unfold JobCtlPlan.delBody
  have hfail : isFailFault "" = false := by decide
  simp only [hfail, Bool.false_eq_true, ↓reduceIte]
  have hdel : ∀ l : List PodObj, delPod l n = l.filter (keepPod [n]) := by
    intro l
    unfold delPod
    apply List.filter_congr
    intro x _
    unfold keepPod
    by_cases hx : x.pod.name = n
    · simp [hx]
    · have : ¬ n = x.pod.name := fun e => hx e.symm
      simp [hx, this]
  cases hp : findPod s.pods n with
  | none =>
    simp only [log]
    refine ⟨trivial, ⟨?_, rfl, rfl, rfl, rfl, rfl, rfl, rfl, rfl, id, ⟨rfl, hf3⟩, fun e he => Or.inl he⟩⟩
    show s.pods = _
    rw [← hdel, delPod_absent hp]
  | some p =>
    have hpm := JobCtlPlan.findPod_some hp
    simp only [log, ↓reduceIte]
    refine ⟨by simp, ⟨?_, rfl, rfl, rfl, rfl, rfl, rfl, rfl, rfl, ?_, ⟨rfl, hf3⟩, ?_⟩⟩
    · exact hdel s.pods
    · intro hps
      unfold PSync at *
      show (s.podEvs ++ [PEv.delete p]).foldl applyPEv s.podCache = delPod s.pods n
      rw [List.foldl_append, hps]
      show delPod s.pods p.pod.name = _
      rw [hpm.2]
    · intro e he
      have he' : e ∈ s.podEvs ++ [PEv.delete p] := he
      rcases List.mem_append.mp he' with h | h
      · exact Or.inl h
      · simp only [List.mem_singleton] at h
        exact Or.inr ⟨p, hpm.1, h⟩

theorem delFold_force : ∀ (names : List String) (s : Sys) (b : Bool), NoFault s →
    (names.foldl (fun (acc : Sys × Bool) n => ((apiDeletePod acc.1 n true).1, acc.2 && (apiDeletePod acc.1 n true).2)) (s, b)).2 = b ∧
    Removed s (names.foldl (fun (acc : Sys × Bool) n => ((apiDeletePod acc.1 n true).1, acc.2 && (apiDeletePod acc.1 n true).2)) (s, b)).1 names
  | [], s, b, hnf => ⟨rfl, Removed.refl s hnf⟩
  | n :: rest, s, b, hnf => by
    obtain ⟨hok, hm⟩ := apiDeletePod_force s n hnf
    obtain ⟨h1, h2⟩ := delFold_force rest (apiDeletePod s n true).1 (b && (apiDeletePod s n true).2) hm.nofault
    simp only [List.foldl_cons]
    refine ⟨by rw [h1, hok]; simp, ?_⟩
    exact hm.trans h2

theorem Removed.congr {s s' : Sys} {A B : List String} (h : Removed s s' A) (hAB : ∀ n, n ∈ A ↔ n ∈ B) : Removed s s' B :=
  ⟨by
    rw [h.pods]
    apply List.filter_congr
    intro p _
    unfold keepPod
    have := hAB p.pod.name
    by_cases ha : p.pod.name ∈ A
    · simp [ha, this.mp ha]
    · have hb : ¬ p.pod.name ∈ B := fun hb => ha (this.mpr hb)
      simp [ha, hb], h.clock, h.d, h.cfg, h.job, h.jobEvs, h.jobCache, h.podCache, h.q, h.psync, h.nofault, h.evs⟩

/-- **`deleteTasks` (forced) with no fault pending**: the pods of all the tasks are removed -/
theorem deleteTasks_force (s : Sys) (tasks : List Task) (hnf : NoFault s) :
    (deleteTasks s tasks true).2 = true ∧ Removed s (deleteTasks s tasks true).1 (tasks.map (·.name)) := by
  unfold deleteTasks
  simp only [Bool.true_or]
  rw [List.filter_eq_self.mpr (fun t _ => rfl)]
  obtain ⟨h1, h2⟩ := delFold_force (List.foldl (fun acc n => deleteTasks.ins n acc) [] (tasks.map (·.name))) s true hnf
  refine ⟨h1, h2.congr ?_⟩
  intro n
  rw [JobCtlPlan.mem_foldl_ins]
  simp

end Furiko.JobCtl.Live
