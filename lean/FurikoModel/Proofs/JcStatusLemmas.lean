/- Helper lemmas for Props/C15 (model: Model/JobConfigStatus.lean). Core Lean only. -/
import FurikoModel.Model.JobConfigStatus

namespace Furiko.JcStatus

/-! ### order on optional times: nil is below every time -/

/-- `a ≤ b` on `*metav1.Time` values where nil (never) is the least element -/
def optLe : Option Int → Option Int → Prop
  | none, _ => True
  | some _, none => False
  | some a, some b => a ≤ b

instance : (a b : Option Int) → Decidable (optLe a b)
  | none, _ => isTrue trivial
  | some _, none => isFalse (fun h => h)
  | some a, some b => inferInstanceAs (Decidable (a ≤ b))

theorem optLe_refl (a : Option Int) : optLe a a := by
  cases a <;> simp [optLe]

theorem optLe_trans {a b c : Option Int} (h1 : optLe a b) (h2 : optLe b c) : optLe a c := by
  cases a <;> cases b <;> cases c <;> simp_all [optLe] <;> omega

theorem optLe_some_iff {t : Int} {b : Option Int} : optLe (some t) b ↔ ∃ v, b = some v ∧ t ≤ v := by
  cases b <;> simp [optLe]

/-! ### sorting of references -/

theorem insertRef_perm (r : JobRef) (l : List JobRef) : (insertRef r l).Perm (r :: l) := by
  induction l with
  | nil => simp [insertRef]
  | cons x xs ih =>
    unfold insertRef
    split
    · exact (List.Perm.cons x ih).trans (List.Perm.swap r x xs)
    · exact List.Perm.refl _

theorem sortRefs_perm (l : List JobRef) : (sortRefs l).Perm l := by
  induction l with
  | nil => simp [sortRefs]
  | cons r rs ih =>
    unfold sortRefs
    exact (insertRef_perm r (sortRefs rs)).trans (List.Perm.cons r ih)

theorem insertRef_sorted (r : JobRef) (l : List JobRef)
    (h : l.Pairwise (fun a b => a.created ≤ b.created)) :
    (insertRef r l).Pairwise (fun a b => a.created ≤ b.created) := by
  induction l with
  | nil => simp [insertRef]
  | cons x xs ih =>
    unfold insertRef
    have hx := List.pairwise_cons.mp h
    split
    · rename_i hlt
      refine List.pairwise_cons.mpr ⟨?_, ih hx.2⟩
      intro b hb
      have := (insertRef_perm r xs).mem_iff.mp hb
      rcases List.mem_cons.mp this with rfl | hb'
      · omega
      · exact hx.1 b hb'
    · rename_i hge
      refine List.pairwise_cons.mpr ⟨?_, h⟩
      intro b hb
      rcases List.mem_cons.mp hb with rfl | hb'
      · omega
      · have := hx.1 b hb'
        omega

theorem sortRefs_sorted (l : List JobRef) :
    (sortRefs l).Pairwise (fun a b => a.created ≤ b.created) := by
  induction l with
  | nil => simp [sortRefs]
  | cons r rs ih => unfold sortRefs; exact insertRef_sorted r _ ih

theorem toJobReferences_perm (items : List Job) : (toJobReferences items).Perm (items.map toRef) :=
  sortRefs_perm _

theorem toJobReferences_length (items : List Job) : (toJobReferences items).length = items.length := by
  have := (toJobReferences_perm items).length_eq
  simpa using this

/-! ### running maximum -/

theorem le_maxFrom_init (init : Int) (ts : List Int) : init ≤ maxFrom init ts := by
  induction ts generalizing init with
  | nil => simp [maxFrom]
  | cons t ts ih =>
    simp only [maxFrom, List.foldl_cons]
    split
    · have := ih t; simp only [maxFrom] at this; omega
    · exact ih init

theorem le_maxFrom_mem (init : Int) (ts : List Int) (t : Int) (h : t ∈ ts) : t ≤ maxFrom init ts := by
  induction ts generalizing init with
  | nil => cases h
  | cons x xs ih =>
    simp only [maxFrom, List.foldl_cons]
    rcases List.mem_cons.mp h with rfl | h'
    · split
      · exact le_maxFrom_init _ xs
      · have := le_maxFrom_init init xs; simp only [maxFrom] at this; omega
    · split
      · exact ih x h'
      · exact ih init h'

theorem maxFrom_eq_init_or_mem (init : Int) (ts : List Int) :
    maxFrom init ts = init ∨ maxFrom init ts ∈ ts := by
  induction ts generalizing init with
  | nil => simp [maxFrom]
  | cons x xs ih =>
    simp only [maxFrom, List.foldl_cons]
    split
    · rcases ih x with h | h
      · right; simp only [maxFrom] at h; rw [h]; exact List.mem_cons_self
      · right; exact List.mem_cons_of_mem _ h
    · rcases ih init with h | h
      · left; exact h
      · right; exact List.mem_cons_of_mem _ h

/-- the optional maximum the two `GetLast…Time` functions return -/
def lastOf (ts : List Int) : Option Int :=
  let m := maxFrom zeroUnix ts
  if m == zeroUnix then none else some m

theorem lastOf_ge (ts : List Int) (t : Int) (h : t ∈ ts) (hz : zeroUnix < t) : optLe (some t) (lastOf ts) := by
  have h1 := le_maxFrom_mem zeroUnix ts t h
  unfold lastOf
  simp only
  split
  · rename_i heq
    have : maxFrom zeroUnix ts = zeroUnix := by simpa using heq
    omega
  · simpa [optLe] using h1

theorem lastOf_some_mem (ts : List Int) (v : Int) (h : lastOf ts = some v) : v ∈ ts ∧ zeroUnix < v := by
  unfold lastOf at h
  simp only at h
  split at h
  · cases h
  · rename_i hne
    injection h with h
    subst h
    have hne' : maxFrom zeroUnix ts ≠ zeroUnix := by simpa using hne
    rcases maxFrom_eq_init_or_mem zeroUnix ts with h | h
    · exact absurd h hne'
    · exact ⟨h, by have := le_maxFrom_init zeroUnix ts; omega⟩

theorem getLastScheduleTime_eq (jobs : List Job) :
    getLastScheduleTime jobs = lastOf (jobs.filterMap labelScheduleTime) := rfl

theorem getLastStartTime_eq (jobs : List Job) :
    getLastStartTime jobs = lastOf (jobs.filterMap countedStartTime) := rfl

/-! ### TimeMax and the update rule `new = from-jobs ? TimeMax(from-jobs, old) : old` -/

/-- the update rule of `SyncOne` for both maxima -/
def bump (fromJobs old : Option Int) : Option Int :=
  match fromJobs with
  | some t => timeMax (some t) old
  | none => old

theorem bump_ge_old (f old : Option Int) : optLe old (bump f old) := by
  cases f with
  | none => exact optLe_refl _
  | some t =>
    cases old with
    | none => simp [optLe]
    | some o =>
      simp only [bump, timeMax]
      split <;> simp only [optLe] <;> omega

theorem bump_ge_jobs (f old : Option Int) : optLe f (bump f old) := by
  cases f with
  | none => simp [optLe]
  | some t =>
    cases old with
    | none => simp [bump, timeMax, optLe]
    | some o =>
      simp only [bump, timeMax]
      split <;> simp only [optLe] <;> omega

theorem timeMax_some_some (x y : Int) : timeMax (some x) (some y) = if x < y then some y else some x := rfl

theorem bump_idem (f old : Option Int) : bump f (bump f old) = bump f old := by
  cases f with
  | none => rfl
  | some t =>
    cases old with
    | none => simp [bump, timeMax]
    | some o =>
      simp only [bump, timeMax_some_some]
      by_cases h : t < o
      · simp [h, timeMax_some_some]
      · simp [h, timeMax_some_some]

theorem computeStatus_lastScheduled (jc : JobConfig) (rjs : List Job) :
    (computeStatus jc rjs).lastScheduled = bump (getLastScheduleTime rjs) jc.status.lastScheduled := by
  simp only [computeStatus, bump]
  cases getLastScheduleTime rjs <;> rfl

theorem computeStatus_lastExecuted (jc : JobConfig) (rjs : List Job) :
    (computeStatus jc rjs).lastExecuted = bump (getLastStartTime rjs) jc.status.lastExecuted := by
  simp only [computeStatus, bump]
  cases getLastStartTime rjs <;> rfl

/-! ### one sync against the API -/

/-- whatever a sync does, the authoritative object afterwards is either the one before or
that one with the status computed from the object that was read, the read object having the
current resourceVersion when `occ` holds -/
theorem syncCore_api (occ : Bool) (cur read : JobConfig) (cache : List Job) (n : Nat) :
    (syncCore occ (some cur) read cache n).1 = some cur ∨
    ((syncCore occ (some cur) read cache n).1 =
        some { cur with status := computeStatus read (listJobs cache read), rv := n } ∧
      (occ = true → read.rv = cur.rv)) := by
  unfold syncCore
  simp only
  split
  · left; rfl
  · unfold writeStatus
    simp only
    by_cases hc : (occ && read.rv != cur.rv) = true
    · simp [hc]
    · simp only [hc]
      right
      refine ⟨rfl, ?_⟩
      intro ho
      subst ho
      simpa using hc

end Furiko.JcStatus
