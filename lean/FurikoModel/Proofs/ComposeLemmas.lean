/-
Helper lemmas for Props/Compose.lean (cross-component theorems).

* §A  cron scheduling: the per-key request stream of a restart is strictly increasing.
* §B  cron reconciler: the transition system of `Model/CronRec.lean` as a deterministic successor
      function (`applyAct`), runs of action lists, the catch-up envelope (`CatchUpAct`), "a request
      is eventually processed successfully" (`Served`) and the invariant of a catch-up run.
* §C  translation of a `CronRec.Job` into the `JcStatus.Job` the JobConfig controller reads, and
      what `listJobs` / `labelScheduleTime` see of it.
* §D  one sync of the JobConfig controller on the current version covers what it listed.
Core Lean only.
-/
import FurikoModel.Props.C02
import FurikoModel.Props.C04
import FurikoModel.Props.C04Status
import FurikoModel.Props.C05
import FurikoModel.Props.C06
import FurikoModel.Props.C08Hist
import FurikoModel.Props.C12
import FurikoModel.Props.C12Plan
import FurikoModel.Props.C15
import FurikoModel.Props.C20

set_option linter.unusedVariables false

/-! ## §A  cron scheduling -/

namespace Furiko.Cron
open Furiko

/-- after a restart (heap from `schedNew`, lister = the loaded JobConfigs) the requests made for one
loaded JobConfig over any run of non-decreasing ticks are strictly increasing — in particular no
time is requested twice.  (Disabled JobConfigs and JobConfigs without an entry request nothing.) -/
theorem restart_requests_sorted {jcs : List JC} {cfg dflt now : Int} {pq : Heap.PQ}
    (hnd : (jcs.map (fun jc => jc.key)).Nodup) (hs : ∀ jc ∈ jcs, jc.SortedOK)
    (h : schedNew jcs cfg dflt now = some pq) {cap : Int} {flushLimit fuel : Nat}
    (ts : List Int) (hts : List.Pairwise (· ≤ ·) ts)
    (hdone : (runTicks cap flushLimit fuel ⟨pq, listerOf jcs, []⟩ ts).2.2 = true)
    {jc : JC} (hjc : jc ∈ jcs) :
    SortedStrict (outk (runTicks cap flushLimit fuel ⟨pq, listerOf jcs, []⟩ ts).2.1.flatten jc.key) := by
  obtain ⟨hInv, hsearch⟩ := schedNew_spec hnd h
  have hL := listerOf_ok hnd hs
  have hlk := lookup_listerOf jcs hnd jc hjc
  have hent := hsearch jc hjc
  have habsent : Heap.search pq jc.key = none →
      SortedStrict (outk (runTicks cap flushLimit fuel ⟨pq, listerOf jcs, []⟩ ts).2.1.flatten jc.key) := by
    intro hnone
    have hall := (runTicks_absent cap flushLimit fuel jc.key ts ⟨pq, listerOf jcs, []⟩ hInv hL
      (fun _ h => by cases h) hnone).1
    have : outk (runTicks cap flushLimit fuel ⟨pq, listerOf jcs, []⟩ ts).2.1.flatten jc.key = [] := by
      apply List.eq_nil_iff_forall_not_mem.2
      intro t ht
      obtain ⟨l, hl, hlt⟩ := List.mem_flatten.1 (mem_outk.1 ht)
      have hm : t ∈ outk l jc.key := mem_outk.2 hlt
      rw [hall l hl] at hm; cases hm
    rw [this]; exact List.Pairwise.nil
  cases hen : jc.sched.enabled with
  | false =>
    apply habsent
    rw [hent]; unfold itemEntry; rw [newItem_disabled hen]
  | true =>
    have hpe : jc.sched.parseErr = false := by
      cases hp : jc.sched.parseErr with
      | false => rfl
      | true =>
        have := (schedNew_none_iff jcs cfg dflt now).2 ⟨jc, hjc, hen, hp⟩
        rw [this] at h; cases h
    rw [itemEntry_active hen hpe] at hent
    cases hne : newEntry jc cfg dflt now with
    | none => apply habsent; rw [hent, hne]
    | some e =>
      rw [hne] at hent
      exact (run_stream_inv cap flushLimit fuel (w := ⟨pq, listerOf jcs, []⟩) hInv hL rfl hlk
        ⟨hen, hpe⟩ hent ts hts hdone).2.1.sorted

end Furiko.Cron

/-! ## §B  cron reconciler: runs of the transition system -/

namespace Furiko.CronRec
open Furiko.Str

/-- the successor state of an action (`step world s a s'` is `Pre world s a ∧ s' = applyAct s a`) -/
def applyAct (s : Sys) : Action → Sys
  | .request c t => { s with queue := jobConfigKey c.ns c.name t :: s.queue }
  | .process key now active maxEnq inj requeue =>
      { s with api := (syncItem now s.api (listerGet s.jcCache) active maxEnq (jobLister s.jobCache) inj key).api,
               queue := if requeue then s.queue else s.queue.filter (· ≠ key) }
  | .crash => { s with queue := [] }
  | .deliver jcs jobs => { s with jcCache := jcs, jobCache := jobs }
  | .delete ns name => { s with api := s.api.filter (fun j => ¬ (j.ns = ns ∧ j.name = name)) }

/-- the guard of an action -/
def Pre (world : JobConfig → Prop) (s : Sys) : Action → Prop
  | .request c _ => world c
  | .process key _ _ _ _ _ => key ∈ s.queue
  | .deliver jcs _ => ∀ c ∈ jcs, world c
  | .crash => True
  | .delete _ _ => True

instance (world : JobConfig → Prop) [DecidablePred world] (s : Sys) (a : Action) :
    Decidable (Pre world s a) := by
  cases a <;> unfold Pre <;> infer_instance

theorem step_iff (world : JobConfig → Prop) (s : Sys) (a : Action) (s' : Sys) :
    step world s a s' ↔ Pre world s a ∧ s' = applyAct s a := by
  cases a <;> simp [step, Pre, applyAct]

/-- the state after a list of actions -/
def runActs (s : Sys) : List Action → Sys
  | [] => s
  | a :: rest => runActs (applyAct s a) rest

/-- every action of the list is enabled when it is taken -/
def Legal (world : JobConfig → Prop) : Sys → List Action → Prop
  | _, [] => True
  | s, a :: rest => Pre world s a ∧ Legal world (applyAct s a) rest

theorem reachable_runActs {world : JobConfig → Prop} (acts : List Action) :
    ∀ s, Reachable world s → Legal world s acts → Reachable world (runActs s acts) := by
  induction acts with
  | nil => intro s h _; exact h
  | cons a rest ih =>
    intro s h hl
    exact ih _ (.step a h ((step_iff world s a _).2 ⟨hl.1, rfl⟩)) hl.2

/-- The catch-up envelope for one restart whose cron worker requested the work items `rq`
(pairs of store key `ns/name` and schedule time): the only keys enqueued are the requested ones
(`E-SingleLeader`: nobody else feeds the queue), no Job is deleted while the catch-up is being
processed, and the controller does not crash again (a second crash is a second restart). -/
def CatchUpAct (rq : List (String × Int)) : Action → Prop
  | .request c t => (String.ofList (metaNsKey c.ns c.name), t) ∈ rq
  | .process _ _ _ _ _ _ => True
  | .deliver _ _ => True
  | .crash => False
  | .delete _ _ => False

instance (rq : List (String × Int)) (a : Action) : Decidable (CatchUpAct rq a) := by
  cases a <;> unfold CatchUpAct <;> infer_instance

/-- `a` is a pass that settles the work item `(c, t)` in state `s`: it processes the item's key
and either the Job already exists on the server (then any pass is a no-op, `process_idempotent`),
or the pass goes all the way to a successful create: the JobConfig lister holds a version of `c`
(same uid) whose option defaults evaluate, the schedule is not skipped by policy (Forbid at the
limit, `MaxEnqueuedJobs`), the Job lister does not claim the Job, and the create call is applied
(`inj = none`, or applied-but-reported-failed). -/
def Effective (c : JobConfig) (t : Int) (s : Sys) : Action → Prop
  | .process key _ active maxEnq inj _ =>
      key = jobConfigKey c.ns c.name t ∧
      (s.api.has c.ns (jobName c.name t) = true ∨
       ∃ cv, listerGet s.jcCache c.ns c.name = some cv ∧ cv.uid = c.uid ∧ cv.subst ≠ none ∧
          ¬ (cv.policy = policyForbid ∧ active cv + 1 > cv.maxConc.getD Facts.defaultMaxConcurrency) ∧
          queueFull maxEnq cv.queued = false ∧
          jobLister s.jobCache c.ns (jobName c.name t) = false ∧
          (inj = .none ∨ inj = .errApplied))
  | _ => False

/-- somewhere in the run `acts` from `s` there is a pass that settles `(c, t)` — "the create
faults are eventually followed by a success"; before and after it the item may be processed any
number of times, with any cache views and any faults -/
def Served (c : JobConfig) (t : Int) : Sys → List Action → Prop
  | _, [] => False
  | s, a :: rest => Effective c t s a ∨ Served c t (applyAct s a) rest

/-- what the API server guarantees about JobConfig identities and names -/
structure WorldOK (world : JobConfig → Prop) : Prop where
  /-- a uid belongs to one (namespace, name) (`C02.UidFunctional`) -/
  uid_fun : ∀ a b, world a → world b → a.uid = b.uid → a.ns = b.ns ∧ a.name = b.name
  /-- … and, over the history considered, a (namespace, name) to one uid: no JobConfig was deleted
  and re-created under the same name while Jobs of the old one are still around -/
  name_fun : ∀ a b, world a → world b → a.ns = b.ns → a.name = b.name → a.uid = b.uid
  /-- JobConfigs are namespaced; namespaces and names contain no `/` -/
  ns_ok : ∀ a, world a → a.ns ≠ [] ∧ '/' ∉ a.ns
  /-- names contain no `/` and do not end in `-` (DNS-1123) -/
  name_ok : ∀ a, world a → '/' ∉ a.name ∧ a.name.getLast? ≠ some '-'

/-! ### small facts -/

/-- unique decomposition at the first `/` -/
theorem split_at_first_slash {a a' b b' : Str} (ha : '/' ∉ a) (ha' : '/' ∉ a')
    (h : a ++ '/' :: b = a' ++ '/' :: b') : a = a' ∧ b = b' := by
  induction a generalizing a' with
  | nil =>
    cases a' with
    | nil => simpa using h
    | cons x q =>
      simp only [List.nil_append, List.cons_append, List.cons.injEq] at h
      exact absurd (h.1 ▸ (by simp : x ∈ x :: q)) ha'
  | cons y r ih =>
    cases a' with
    | nil =>
      simp only [List.nil_append, List.cons_append, List.cons.injEq] at h
      exact absurd (h.1 ▸ (by simp : y ∈ y :: r)) ha
    | cons x q =>
      simp only [List.cons_append, List.cons.injEq] at h
      obtain ⟨rfl, h2⟩ := h
      obtain ⟨rfl, rfl⟩ := ih (fun hm => ha (List.mem_cons_of_mem _ hm))
        (fun hm => ha' (List.mem_cons_of_mem _ hm)) h2
      exact ⟨rfl, rfl⟩

/-- the lister returns an object stored under the (namespace, name) it was asked for -/
theorem listerGet_ident {cache : List JobConfig} {ns name : Str} {cv : JobConfig}
    (h : listerGet cache ns name = some cv) (hns : '/' ∉ ns)
    (hcv : '/' ∉ cv.ns) (hcvn : '/' ∉ cv.name) : cv.ns = ns ∧ cv.name = name := by
  have hp := List.find?_some h
  simp only [decide_eq_true_eq] at hp
  unfold metaNsKey at hp
  by_cases hl : cv.ns.length > 0
  · rw [if_pos hl] at hp
    exact split_at_first_slash hcv hns hp
  · rw [if_neg hl] at hp
    exact absurd (hp ▸ (by simp : '/' ∈ ns ++ '/' :: name)) hcvn

theorem has_true_iff {api : Api} {ns name : Str} :
    api.has ns name = true ↔ ∃ j ∈ api, j.ns = ns ∧ j.name = name := by
  unfold Api.has
  rw [List.any_eq_true]
  constructor
  · rintro ⟨j, hj, h⟩; exact ⟨j, hj, by simpa using h⟩
  · rintro ⟨j, hj, h⟩; exact ⟨j, hj, by simpa using h⟩

theorem has_append_left {api : Api} (new : Api) {ns name : Str} (h : api.has ns name = true) :
    (api ++ new).has ns name = true := by
  obtain ⟨j, hj, h'⟩ := has_true_iff.1 h
  exact has_true_iff.2 ⟨j, List.mem_append_left _ hj, h'⟩

/-- one pass on a requested key: the server is unchanged, or it gained exactly the Job of the
key's schedule time, built from the version the lister returned for the key's (namespace, name) -/
theorem syncItem_requested_api (now : Int) (api : Api) (lookup : Str → Str → Option JobConfig)
    (active : JobConfig → Int) (mx : Option Int) (inCache : Str → Str → Bool) (inj : Inject)
    (ns name : Str) (t : Int) (hns : '/' ∉ ns) (hname : '/' ∉ name) :
    (syncItem now api lookup active mx inCache inj (jobConfigKey ns name t)).api = api ∨
    ∃ cv vars, lookup ns name = some cv ∧
      (syncItem now api lookup active mx inCache inj (jobConfigKey ns name t)).api
        = api ++ [scheduledJob now cv t vars] ∧
      api.has cv.ns (generateName now cv.name t) = false := by
  unfold syncItem
  rw [splitNsKey_jobConfigKey t hns hname]
  simp only
  rcases syncOne_api now api lookup active mx inCache inj ns (joinKey name t) with
    h | ⟨cfgName, t', cv, vars, hk, hl, h, hfree⟩
  · left; exact h
  · right
    by_cases ht : InInt64 t
    · rw [splitKey_joinKey name ht] at hk
      injection hk with e
      injection e with e1 e2
      subst e1; subst e2
      exact ⟨cv, vars, hl, h, hfree⟩
    · rw [splitKey_joinKey_out_of_range name ht] at hk
      cases hk

/-! ### the invariant of a catch-up run -/

/-- Invariant of a catch-up run for JobConfig `c`, requested items `rq`, server content `api0` at
the restart. -/
structure CInv (world : JobConfig → Prop) (c : JobConfig) (rq : List (String × Int)) (api0 : Api)
    (s : Sys) : Prop where
  reach : Reachable world s
  /-- no Job carries the zero-time annotation (finding C02-F1 is outside the envelope) -/
  clean : ∀ j ∈ s.api, j.schedAnnot ≠ some (showInt zeroUnix)
  /-- the work queue holds requested keys only -/
  queue : ∀ k ∈ s.queue, ∃ c' t', world c' ∧ k = jobConfigKey c'.ns c'.name t' ∧
      (String.ofList (metaNsKey c'.ns c'.name), t') ∈ rq
  /-- the server only grew, and every new Job of `c` is the Job of a requested time -/
  grow : ∃ new, s.api = api0 ++ new ∧ ∀ j ∈ new, j.ownerUid = some c.uid →
      ∃ t, (String.ofList (metaNsKey c.ns c.name), t) ∈ rq ∧ j.schedAnnot = some (showInt t) ∧
        j.ns = c.ns ∧ j.name = jobName c.name t

theorem CInv.step {world : JobConfig → Prop} (hW : WorldOK world) {c : JobConfig} (hc : world c)
    {rq : List (String × Int)} (hrq : ∀ p ∈ rq, p.2 ≠ zeroUnix) {api0 : Api} {s : Sys}
    (h : CInv world c rq api0 s) (a : Action) (hpre : Pre world s a) (hcu : CatchUpAct rq a) :
    CInv world c rq api0 (applyAct s a) := by
  have hreach : Reachable world (applyAct s a) :=
    .step a h.reach ((step_iff world s a _).2 ⟨hpre, rfl⟩)
  cases a with
  | crash => exact hcu.elim
  | delete ns name => exact hcu.elim
  | request c' t' =>
    refine ⟨hreach, h.clean, ?_, h.grow⟩
    intro k hk
    rcases List.mem_cons.1 hk with rfl | hk
    · exact ⟨c', t', hpre, rfl, hcu⟩
    · exact h.queue k hk
  | deliver jcs jobs => exact ⟨hreach, h.clean, h.queue, h.grow⟩
  | process key now active mx inj requeue =>
    have hq' : ∀ k ∈ (applyAct s (.process key now active mx inj requeue)).queue, k ∈ s.queue := by
      intro k hk
      simp only [applyAct] at hk
      split at hk
      · exact hk
      · exact (List.mem_filter.1 hk).1
    obtain ⟨c', t', hwc', rfl, hin⟩ := h.queue key hpre
    have hinv := inv_reachable h.reach
    rcases syncItem_requested_api now s.api (listerGet s.jcCache) active mx (jobLister s.jobCache) inj
        c'.ns c'.name t' (hW.ns_ok c' hwc').2 (hW.name_ok c' hwc').1 with he | ⟨cv, vars, hl, he, hfree⟩
    · refine ⟨hreach, ?_, fun k hk => h.queue k (hq' k hk), ?_⟩
      · simp only [applyAct, he]; exact h.clean
      · simp only [applyAct, he]; exact h.grow
    · have hwcv : world cv := hinv.cache cv (listerGet_mem hl)
      obtain ⟨e1, e2⟩ := listerGet_ident hl (hW.ns_ok c' hwc').2 (hW.ns_ok cv hwcv).2 (hW.name_ok cv hwcv).1
      have ht' : t' ≠ zeroUnix := hrq _ hin
      refine ⟨hreach, ?_, fun k hk => h.queue k (hq' k hk), ?_⟩
      · simp only [applyAct, he]
        intro j hj
        rcases List.mem_append.1 hj with hj | hj
        · exact h.clean j hj
        · rw [List.mem_singleton] at hj
          subst hj
          rw [schedAnnot_scheduledJob]
          intro hh
          exact ht' (Str.showInt_injective (Option.some.inj hh))
      · obtain ⟨new, hnew, hprop⟩ := h.grow
        refine ⟨new ++ [scheduledJob now cv t' vars], ?_, ?_⟩
        · show (syncItem now s.api (listerGet s.jcCache) active mx (jobLister s.jobCache) inj
              (jobConfigKey c'.ns c'.name t')).api = _
          rw [he, hnew, List.append_assoc]
        · intro j hj ho
          rcases List.mem_append.1 hj with hj | hj
          · exact hprop j hj ho
          · rw [List.mem_singleton] at hj
            subst hj
            rw [ownerUid_scheduledJob] at ho
            obtain ⟨u1, u2⟩ := hW.uid_fun cv c hwcv hc (Option.some.inj ho)
            refine ⟨t', ?_, schedAnnot_scheduledJob now cv t' vars, u1, ?_⟩
            · rw [← u1, ← u2, e1, e2]; exact hin
            · show generateName now cv.name t' = _
              rw [generateName_eq_jobName now cv.name ht', u2]

/-- a run inside the catch-up envelope -/
def CatchUp (rq : List (String × Int)) (acts : List Action) : Prop := ∀ a ∈ acts, CatchUpAct rq a

theorem CInv.run {world : JobConfig → Prop} (hW : WorldOK world) {c : JobConfig} (hc : world c)
    {rq : List (String × Int)} (hrq : ∀ p ∈ rq, p.2 ≠ zeroUnix) {api0 : Api} (acts : List Action) :
    ∀ s, CInv world c rq api0 s → Legal world s acts → CatchUp rq acts →
      CInv world c rq api0 (runActs s acts) := by
  induction acts with
  | nil => intro s h _ _; exact h
  | cons a rest ih =>
    intro s h hl hcu
    exact ih _ (h.step hW hc hrq a hl.1 (hcu a (by simp))) hl.2 (fun b hb => hcu b (by simp [hb]))

/-- along a catch-up run the server only grows: a name that is taken stays taken -/
theorem has_mono_run {rq : List (String × Int)} (acts : List Action) :
    ∀ s, CatchUp rq acts → ∀ ns name, s.api.has ns name = true →
      (runActs s acts).api.has ns name = true := by
  induction acts with
  | nil => intro s _ ns name h; exact h
  | cons a rest ih =>
    intro s hcu ns name h
    apply ih _ (fun b hb => hcu b (by simp [hb]))
    have ha := hcu a (by simp)
    cases a with
    | crash => exact ha.elim
    | delete _ _ => exact ha.elim
    | request _ _ => exact h
    | deliver _ _ => exact h
    | process key now active mx inj requeue =>
      simp only [applyAct]
      rcases syncItem_api now s.api (listerGet s.jcCache) active mx (jobLister s.jobCache) inj key with
        he | ⟨_, _, _, _, _, _, he, _⟩
      · rw [he]; exact h
      · rw [he]; exact has_append_left _ h

/-- an effective pass leaves the name of the Job of `(c, t)` taken on the server -/
theorem effective_has {world : JobConfig → Prop} (hW : WorldOK world) {c : JobConfig} (hc : world c)
    {t : Int} (ht : t ≠ zeroUnix) (hti : InInt64 t) {s : Sys} (hinv : Inv world s) {a : Action}
    (he : Effective c t s a) : (applyAct s a).api.has c.ns (jobName c.name t) = true := by
  cases a with
  | request _ _ => exact he.elim
  | crash => exact he.elim
  | deliver _ _ => exact he.elim
  | delete _ _ => exact he.elim
  | process key now active mx inj requeue =>
    obtain ⟨rfl, hor⟩ := he
    simp only [applyAct]
    rcases hor with hhas | ⟨cv, hl, hu, hsub, hforbid, hqf, hcache, hinj⟩
    · rcases syncItem_api now s.api (listerGet s.jcCache) active mx (jobLister s.jobCache) inj
          (jobConfigKey c.ns c.name t) with he | ⟨_, _, _, _, _, _, he, _⟩
      · rw [he]; exact hhas
      · rw [he]; exact has_append_left _ hhas
    · have hwcv : world cv := hinv.cache cv (listerGet_mem hl)
      obtain ⟨e1, e2⟩ := listerGet_ident hl (hW.ns_ok c hc).2 (hW.ns_ok cv hwcv).2 (hW.name_ok cv hwcv).1
      cases hsv : cv.subst with
      | none => exact absurd hsv hsub
      | some vars =>
        by_cases hfree : s.api.has c.ns (jobName c.name t) = true
        · rcases syncItem_api now s.api (listerGet s.jcCache) active mx (jobLister s.jobCache) inj
              (jobConfigKey c.ns c.name t) with he | ⟨_, _, _, _, _, _, he, _⟩
          · rw [he]; exact hfree
          · rw [he]; exact has_append_left _ hfree
        · have hfree' : s.api.has c.ns (jobName c.name t) = false := by simpa using hfree
          have hgn : generateName now cv.name t = jobName c.name t := by
            rw [generateName_eq_jobName now cv.name ht, e2]
          have key : (syncItem now s.api (listerGet s.jcCache) active mx (jobLister s.jobCache) inj
              (jobConfigKey c.ns c.name t)).api = s.api ++ [scheduledJob now cv t vars] := by
            unfold syncItem
            rw [splitNsKey_jobConfigKey t (hW.ns_ok c hc).2 (hW.name_ok c hc).1]
            simp only
            unfold syncOne
            rw [splitKey_joinKey c.name hti]
            simp only [hl]
            unfold processCron
            simp only [hforbid, if_false, hqf, Bool.false_eq_true, newJobFromJobConfig, hsv, e1, hgn,
              hcache]
            rcases hinj with rfl | rfl <;>
              simp only [apiCreate, hfree', Bool.false_eq_true, if_false] <;>
              simp [scheduledJob, e1, hgn]
          rw [key]
          apply has_true_iff.2
          refine ⟨scheduledJob now cv t vars, by simp, e1, hgn⟩

/-- if `(c, t)` is served in a catch-up run, the name of its Job is taken at the end -/
theorem served_has {world : JobConfig → Prop} (hW : WorldOK world) {c : JobConfig} (hc : world c)
    {rq : List (String × Int)} {t : Int} (ht : t ≠ zeroUnix) (hti : InInt64 t) (acts : List Action) :
    ∀ s, Reachable world s → Legal world s acts → CatchUp rq acts → Served c t s acts →
      (runActs s acts).api.has c.ns (jobName c.name t) = true := by
  induction acts with
  | nil => intro s _ _ _ h; exact h.elim
  | cons a rest ih =>
    intro s hr hl hcu hs
    have hr' : Reachable world (applyAct s a) := .step a hr ((step_iff world s a _).2 ⟨hl.1, rfl⟩)
    have hcu' : CatchUp rq rest := fun b hb => hcu b (by simp [hb])
    rcases hs with he | hs
    · exact has_mono_run rest _ hcu' _ _ (effective_has hW hc ht hti (inv_reachable hr) he)
    · exact ih _ hr' hl.2 hcu' hs

/-- name hygiene: in a reachable state without zero-time Jobs, the object stored under the name of
the Job of `(c, t)` IS that Job: owned by `c`'s uid, annotated with `t` -/
theorem job_at_name {world : JobConfig → Prop} (hW : WorldOK world) {c : JobConfig} (hc : world c)
    {t : Int} {s : Sys} (hinv : Inv world s)
    (hclean : ∀ j ∈ s.api, j.schedAnnot ≠ some (showInt zeroUnix)) {j : Job} (hj : j ∈ s.api)
    (hns : j.ns = c.ns) (hname : j.name = jobName c.name t) :
    j.ownerUid = some c.uid ∧ j.schedAnnot = some (showInt t) := by
  obtain ⟨c2, t2, now2, vars, hw2, rfl⟩ := hinv.made j hj
  have ht2 : t2 ≠ zeroUnix := by
    intro h
    apply hclean _ hj
    rw [schedAnnot_scheduledJob, h]
  have hn : jobName c2.name t2 = jobName c.name t := by
    rw [← generateName_eq_jobName now2 c2.name ht2]; exact hname
  have hns' : c2.ns = c.ns := hns
  rcases (jobName_eq_iff c2.name c.name t2 t).1 hn with ⟨e1, e2⟩ | ⟨e, _, _⟩ | ⟨e, _, _⟩
  · rw [ownerUid_scheduledJob, schedAnnot_scheduledJob, e2, hW.name_fun c2 c hw2 hc hns' e1]
    exact ⟨rfl, rfl⟩
  · exact absurd (by rw [e]; simp) (hW.name_ok c2 hw2).2
  · exact absurd (by rw [e]; simp) (hW.name_ok c hc).2

/-- one fault-free pass of the cron reconciler with a Job lister that has caught up with the server
(`C20.cronSync`), on the work item of `(c, t)`, when the JobConfig lister returns a version `cv` of
`c` whose option defaults evaluate and the schedule is not skipped by policy: the pass succeeds and
the server afterwards is the server before (the Job's name was taken) or the server before plus the
Job of `(cv, t)` -/
theorem cronSync_quiet (e : Props.C20.CronEnv) (c cv : JobConfig) (t : Int) (ht : InInt64 t)
    (htz : t ≠ zeroUnix) (hname : e.name = joinKey c.name t) (hns : e.ns = c.ns)
    (hl : e.lookup c.ns c.name = some cv) (hid : cv.ns = c.ns ∧ cv.name = c.name)
    (vars : KV) (hsub : cv.subst = some vars)
    (hforbid : ¬ (cv.policy = policyForbid ∧ e.active cv + 1 > cv.maxConc.getD Facts.defaultMaxConcurrency))
    (hq : queueFull e.mx cv.queued = false) (api : Api) :
    Props.C20.cronSync e api false =
      (if api.has c.ns (jobName c.name t) then api else api ++ [scheduledJob e.now cv t vars], true) := by
  have hgn : generateName e.now cv.name t = jobName c.name t := by
    rw [generateName_eq_jobName e.now cv.name htz, hid.2]
  unfold Props.C20.cronSync syncOne
  rw [hname, splitKey_joinKey c.name ht]
  simp only [hns, hl]
  unfold processCron
  simp only [hforbid, if_false, hq, Bool.false_eq_true, newJobFromJobConfig, hsub, hid.1, hgn]
  by_cases hhas : api.has c.ns (jobName c.name t) = true
  · simp [hhas]
  · have hhas' : api.has c.ns (jobName c.name t) = false := by simpa using hhas
    simp [hhas', apiCreate, afterCreate, scheduledJob, hid.1, hgn]

end Furiko.CronRec

/-! ## §B'  job status: what the admission error does to condition and phase -/

namespace Furiko

/-- the phase written for a Job whose condition was computed from a Job carrying the
admission-error annotation is `AdmissionError`, which `JobPhase.IsTerminal` (regenerated table)
classifies as terminal — whatever the clocks, the tasks and the kill timestamp are -/
theorem admission_error_phase (now now' : Time) (d : PIndex) (rj rj' : Job)
    (hadm : rj.admissionError = true) (hc : rj'.status.condition = getCondition now d rj) :
    getPhase now' rj' = "AdmissionError" ∧ phaseIsTerminal (getPhase now' rj') = true := by
  have h1 : getPhase now' rj' = "AdmissionError" := by
    unfold getPhase
    rw [hc]
    unfold getCondition
    simp only
    rw [if_pos hadm]
    show phaseOfResult .admissionError = "AdmissionError"
    decide
  exact ⟨h1, by rw [h1]; decide⟩

end Furiko

/-! ## §C  a `CronRec.Job` as the JobConfig controller reads it -/

namespace Furiko.Compose
open Furiko Furiko.Str

theorem isDigit_toNat {c : Char} (h : c.isDigit = true) : 48 ≤ c.toNat ∧ c.toNat ≤ 57 := by
  simp only [Char.isDigit, Bool.and_eq_true, decide_eq_true_eq] at h
  obtain ⟨h1, h2⟩ := h
  rw [ge_iff_le, UInt32.le_iff_toNat_le] at h1
  rw [UInt32.le_iff_toNat_le] at h2
  exact ⟨h1, h2⟩

theorem digitVal_of_isDigit {c : Char} (h : c.isDigit = true) : digitVal c = some (c.toNat - 48) := by
  unfold digitVal
  have h' : ('0' ≤ c ∧ c ≤ '9') := by
    simp only [Char.isDigit, Bool.and_eq_true, decide_eq_true_eq] at h
    exact ⟨h.1, h.2⟩
  simp [h']

/-- the accumulation loop of `JcStatus.atoi` (on `Int`, `c - 48`) computes what `Str.parseDigitsFrom`
(on `Nat`, `digitVal`) computes, on digit strings -/
theorem jcFold_eq (ds : Str) : ∀ (acc k : Nat), (∀ c ∈ ds, c.isDigit = true) →
    parseDigitsFrom acc ds = some k →
    ds.foldl (fun (a : Int) c => a * 10 + ((c.toNat : Int) - 48)) (acc : Int) = (k : Int) := by
  induction ds with
  | nil =>
    intro acc k _ h
    simp only [parseDigitsFrom, Option.some.injEq] at h
    simp [h]
  | cons c cs ih =>
    intro acc k hd h
    have hc : c.isDigit = true := hd c (by simp)
    simp only [parseDigitsFrom, digitVal_of_isDigit hc] at h
    have := ih (acc * 10 + (c.toNat - 48)) k (fun x hx => hd x (by simp [hx])) h
    rw [List.foldl_cons, ← this]
    congr 1
    have := (isDigit_toNat hc).1
    omega

/-- the digit loop of `JcStatus.atoi` -/
def digFold (ds : List Char) : Int := ds.foldl (fun (a : Int) c => a * 10 + ((c.toNat : Int) - 48)) 0

theorem jcAtoi_nosign (s : String) (c : Char) (rest : List Char) (hs : s.toList = c :: rest)
    (hm : c ≠ '-') (hp : c ≠ '+') :
    JcStatus.atoi s =
      if (c :: rest).isEmpty || !((c :: rest).all Char.isDigit) then none
      else
        if digFold (c :: rest) < -9223372036854775808 || digFold (c :: rest) > 9223372036854775807 then none
        else some (digFold (c :: rest)) := by
  generalize hR : (if (c :: rest).isEmpty || !((c :: rest).all Char.isDigit) then none
      else
        if digFold (c :: rest) < -9223372036854775808 || digFold (c :: rest) > 9223372036854775807 then none
        else some (digFold (c :: rest))) = R
  unfold JcStatus.atoi
  rw [hs]
  simp only []
  split
  · rename_i heq; injection heq with h1 _; exact absurd h1 hm
  · rename_i heq; injection heq with h1 _; exact absurd h1 hp
  · subst hR; simp [digFold]

theorem jcAtoi_minus (s : String) (rest : List Char) (hs : s.toList = '-' :: rest) :
    JcStatus.atoi s =
      if rest.isEmpty || !(rest.all Char.isDigit) then none
      else
        if -(digFold rest) < -9223372036854775808 || -(digFold rest) > 9223372036854775807 then none
        else some (-(digFold rest)) := by
  unfold JcStatus.atoi
  rw [hs]
  simp [digFold]

/-- the two models' `strconv.Atoi` agree on rendered integers: the JobConfig controller's parser
(`JcStatus.atoi`, on `String`) reads back what the cron reconciler's renderer (`Str.showInt`) wrote -/
theorem jcAtoi_showInt {t : Int} (ht : InInt64 t) : JcStatus.atoi (String.ofList (showInt t)) = some t := by
  have hfold : digFold (natDigits t.natAbs) = (t.natAbs : Int) := by
    have := jcFold_eq (natDigits t.natAbs) 0 t.natAbs (fun c hc => natDigits_isDigit hc)
      (parseDigits_natDigits t.natAbs)
    simpa [digFold] using this
  have hall : (natDigits t.natAbs).all Char.isDigit = true :=
    List.all_eq_true.2 (fun c hc => natDigits_isDigit hc)
  have hne : (natDigits t.natAbs).isEmpty = false := by
    cases h : natDigits t.natAbs with
    | nil => exact absurd h (natDigits_ne_nil _)
    | cons _ _ => rfl
  obtain ⟨hlo, hhi⟩ := ht
  unfold int64Min at hlo
  unfold int64Max at hhi
  by_cases hneg : t < 0
  · have hs : (String.ofList (showInt t)).toList = '-' :: natDigits t.natAbs := by
      rw [String.toList_ofList]; simp [showInt, hneg]
    rw [jcAtoi_minus _ _ hs, hfold]
    have e : -((t.natAbs : Nat) : Int) = t := by omega
    rw [e]
    have h1 : ¬ (t < -9223372036854775808) := by omega
    have h2 : ¬ (t > 9223372036854775807) := by omega
    simp [hne, hall, h1, h2]
  · obtain ⟨c, rest, hcons, hcd⟩ := natDigits_cons t.natAbs
    have hm : c ≠ '-' := ne_of_isDigit hcd (by decide)
    have hp : c ≠ '+' := ne_of_isDigit hcd (by decide)
    have hs : (String.ofList (showInt t)).toList = c :: rest := by
      rw [String.toList_ofList]; simp [showInt, hneg, hcons]
    rw [jcAtoi_nosign _ c rest hs hm hp, ← hcons, hfold]
    have e : ((t.natAbs : Nat) : Int) = t := by omega
    rw [e]
    have h1 : ¬ (t < -9223372036854775808) := by omega
    have h2 : ¬ (t > 9223372036854775807) := by omega
    simp [hne, hall, h1, h2]

/-- the fields of a Job object that the API server and the other controllers set (not the cron
reconciler) -/
structure JobMeta where
  uid : String
  created : Int
  startTime : Option Int := none
  phase : String := ""
  deletion : Option Int := none
  deriving DecidableEq, Repr

/-- the projection of a Job built by the cron reconciler that the JobConfig controller reads:
namespace, name, the uid label, the controller owner reference and the schedule-time annotation are
the reconciler's; the rest is `m` -/
def toJcJob (j : CronRec.Job) (m : JobMeta) : JcStatus.Job :=
  { ns := String.ofList j.ns, name := String.ofList j.name, uid := m.uid, created := m.created,
    labelUid := (CronRec.mapGet j.labels CronRec.labelKeyUID).map String.ofList,
    owner := (j.owners.find? (·.controller)).map
      (fun o => { kind := String.ofList o.kind, name := String.ofList o.name, uid := String.ofList o.uid }),
    startTime := m.startTime, phase := m.phase, deletion := m.deletion,
    schedAnn := j.schedAnnot.map String.ofList }

/-- what the JobConfig controller sees of the Job the cron reconciler builds for `(c, t)`: it is
selected by `listJobs` for every JobConfig object with `c`'s namespace and uid, its schedule time
reads back as `t`, and it is inside `E-OwnerLabel` (label and controller reference agree) -/
theorem toJcJob_scheduled (now : Int) (c : CronRec.JobConfig) (t : Int) (ht : InInt64 t)
    (j : CronRec.Job) (h : CronRec.newJobFromJobConfig now c CronRec.typeScheduled t = some j)
    (m : JobMeta) (jc : JcStatus.JobConfig) (hns : jc.ns = String.ofList c.ns)
    (huid : jc.uid = String.ofList c.uid) (cache : List JcStatus.Job) (hin : toJcJob j m ∈ cache) :
    toJcJob j m ∈ JcStatus.listJobs cache jc ∧ JcStatus.labelScheduleTime (toJcJob j m) = some t ∧
    (toJcJob j m).owner = some { kind := "JobConfig", name := String.ofList c.name, uid := jc.uid } := by
  obtain ⟨ha, _, hl, ho, _, hjns, _⟩ := Props.C02.job_records_identity now c t ht j h
  refine ⟨?_, ?_, ?_⟩
  · unfold JcStatus.listJobs
    apply List.mem_filter.2
    refine ⟨hin, ?_⟩
    simp [toJcJob, hl, hjns, hns, huid]
  · simp [JcStatus.labelScheduleTime, toJcJob, ha, jcAtoi_showInt ht]
  · simp only [toJcJob, ho, CronRec.controllerRef, huid]
    simp
    decide

end Furiko.Compose

/-! ## §D  one sync of the JobConfig controller that read the current version -/

namespace Furiko.Props.C15
open Furiko Furiko.JcStatus

/-- a sync that read the CURRENT version of the JobConfig (`read.rv = api.rv`; a stale read is
answered with a conflict and retried) covers what it listed: afterwards the recorded
`lastScheduled` on the API is at least the schedule time of every listed Job -/
theorem sync_current_covers (s : Sys) (hwf : s.WF) (idx : Nat) (cache : List JcStatus.Job)
    (read : JcStatus.JobConfig)
    (hread : s.versions[idx]? = some read) (hcur : read.rv = s.api.rv)
    (j : JcStatus.Job) (t : Int) (hj : j ∈ listJobs cache read) (ht : labelScheduleTime j = some t)
    (hz : zeroUnix < t) :
    optLe (some t) (stepSys true s (.sync idx cache)).api.status.lastScheduled := by
  have hmem : read ∈ s.versions := List.mem_of_getElem? hread
  have hst : read.status = s.api.status := (hwf read hmem).2 hcur
  have hcov := lastScheduled_ge_listed read (listJobs cache read) j t hj ht hz
  simp only [stepSys, hread]
  unfold syncCore
  simp only
  split
  · rename_i heq
    simp only [Option.getD_some]
    rw [← hst, ← heq]; exact hcov
  · have hb : (true && (read.rv != s.api.rv)) = false := by simp [hcur]
    simp only [writeStatus, hb, Bool.false_eq_true, if_false, Option.getD_some]
    exact hcov

end Furiko.Props.C15

/-! ## §E  "active" in the queue model and in the JobConfig-status model -/

namespace Furiko.Compose

/-- `q` (queue model) and `r` (JobConfig-status model) are views of one Job object: same uid label,
same `status.startTime` (whole seconds; not the pointer-to-zero-time, which only the
JobConfig-status model's data convention can express), and the queue model's `terminal` flag is
`JobPhase.IsTerminal` of the phase (regenerated table `Facts.terminalPhases`) -/
structure SameJob (q : Queue.JobV) (r : JcStatus.Job) : Prop where
  label : r.labelUid = q.label
  start : r.startTime = q.startTime
  nonzero : q.startTime ≠ some JcStatus.zeroUnix
  terminal : q.terminal = JcStatus.isTerminal r.phase

theorem SameJob.isStarted {q : Queue.JobV} {r : JcStatus.Job} (h : SameJob q r) :
    JcStatus.isStarted r = q.isStarted := by
  unfold JcStatus.isStarted Queue.JobV.isStarted
  rw [h.start]
  cases hs : q.startTime with
  | none => rfl
  | some t =>
    have : t ≠ JcStatus.zeroUnix := fun e => h.nonzero (by rw [hs, e])
    simp [JcStatus.tIsZero, this]

theorem SameJob.isActive {q : Queue.JobV} {r : JcStatus.Job} (h : SameJob q r) :
    JcStatus.isActive r = q.isActive := by
  unfold JcStatus.isActive Queue.JobV.isActive
  rw [h.isStarted, h.terminal]

theorem SameJob.isQueued {q : Queue.JobV} {r : JcStatus.Job} (h : SameJob q r) :
    JcStatus.isQueued r = q.isQueued := by
  unfold JcStatus.isQueued Queue.JobV.isQueued
  rw [h.isStarted, h.terminal]

/-- over a population of Jobs seen by both models: the Jobs the JobConfig controller lists for `jc`
and finds active are as many as the queue model's ground truth for `jc.uid` -/
theorem active_count_agree (jc : JcStatus.JobConfig) (views : List (Queue.JobV × JcStatus.Job))
    (h : ∀ p ∈ views, SameJob p.1 p.2 ∧ p.2.ns = jc.ns) :
    ((JcStatus.listJobs (views.map (·.2)) jc).filter JcStatus.isActive).length
      = Queue.actCount (views.map (·.1)) jc.uid := by
  unfold JcStatus.listJobs Queue.actCount
  rw [List.filter_filter, ← List.countP_eq_length_filter, ← List.countP_eq_length_filter,
    List.countP_map, List.countP_map]
  apply List.countP_congr
  intro p hp
  obtain ⟨hs, hns⟩ := h p hp
  simp only [Function.comp, hs.isActive, hs.label, hns, beq_self_eq_true, Bool.true_and,
    Bool.and_eq_true, beq_iff_eq, decide_eq_true_eq]
  exact ⟨fun ⟨a, b⟩ => ⟨b, a⟩, fun ⟨a, b⟩ => ⟨b, a⟩⟩

end Furiko.Compose
