/-
Liveness of the job controller, part 25: THE RESULT IS THE ONE THE ORACLE DICTATES.  `Truth orc` says
that the state agrees with the kubelet oracle `orc` so far: finished pods ended as `orc` says (and none
was OOM-killed), every recorded attempt still has its pod, an attempt recorded as over without success
failed according to `orc`, a successful or live one is the latest.  Fair rounds keep `Truth`
(`truth_round`), and in a final state it pins the result down (`verdict`): `Success` with `k+1` refs where
`k` is the first attempt `orc` lets succeed, or `Failed` with `maxAttempts` refs when `orc` fails them all.
Core Lean only.
-/
import FurikoModel.Proofs.JobCtlLive24

set_option linter.unusedSimpArgs false
set_option linter.unusedVariables false

namespace Furiko.JobCtl.Live
open Furiko Furiko.JobCtl Furiko.WQ Furiko.StatusLemmas Furiko.JobCtlPlan Furiko.Conv Furiko.ParallelLemmas

/-- the state agrees with the kubelet oracle -/
structure Truth (orc : String → Outcome) (jo : JobObj) (s : Sys) : Prop where
  pods : ∀ p ∈ s.pods, p.pod.isOOMKilled = false ∧
    (p.pod.isFinished = true → (p.pod.phase = .succeeded ↔ orc p.pod.name = .succeed))
  noLoss : ∀ r ∈ jo.job.status.tasks, r.name ∈ podNames s.pods
  failed : ∀ r ∈ jo.job.status.tasks, r.finishTimestamp.isSome = true → r.status.result ≠ .succeeded →
    orc r.name = .fail
  succ : ∀ r ∈ jo.job.status.tasks, r.finishTimestamp.isSome = true → r.status.result = .succeeded →
    orc r.name = .succeed ∧ ∀ r' ∈ jo.job.status.tasks, r'.retryIndex ≤ r.retryIndex
  live : ∀ r ∈ jo.job.status.tasks, LiveRef r → ∀ r' ∈ jo.job.status.tasks, r'.retryIndex ≤ r.retryIndex

theorem outcome_fail_of_ne {o : Outcome} (h : o ≠ .succeed) : o = .fail := by cases o <;> simp_all

/-- a finished pod that was not OOM-killed reports `Succeeded` exactly in phase Succeeded -/
theorem result_of_phase {p : PodObj} (hoom : p.pod.isOOMKilled = false) (hfin : p.pod.isFinished = true) :
    p.pod.result = .succeeded ↔ p.pod.phase = .succeeded := by
  unfold Pod.result
  rw [hoom]
  unfold Pod.isFinished at hfin
  cases hp : p.pod.phase <;> simp_all

theorem sweepPod_truth (orc : String → Outcome) (p : PodObj) (hoom : p.pod.isOOMKilled = false)
    (h : p.pod.isFinished = true → (p.pod.phase = .succeeded ↔ orc p.pod.name = .succeed)) :
    (sweepPod orc p).pod.isOOMKilled = false ∧
    ((sweepPod orc p).pod.phase = .succeeded ↔ orc (sweepPod orc p).pod.name = .succeed) := by
  unfold sweepPod
  by_cases hf : p.pod.isFinished = true
  · rw [if_pos hf]; exact ⟨hoom, h hf⟩
  · rw [if_neg hf]
    refine ⟨hoom, ?_⟩
    show (orc p.pod.name).phase = .succeeded ↔ orc p.pod.name = .succeed
    cases orc p.pod.name <;> simp [Outcome.phase]

section
variable {ok : Sys → Action → Prop} {j0 jo jo' : JobObj} {F0 : Int} {s e w : Sys}

/-- the pod behind a task the server shows -/
theorem PState.pod_of_task (h : PState ok j0 jo F0 e) {n : String} {t : Task} (hl : lookTask e n = some t) :
    ∃ p ∈ e.pods, p.pod.name = n ∧ podTask e.clock p = some t ∧ p.pod.isFinished = true :=
  let ⟨_, _, _, _, p, hp, hn, hpt⟩ := h.task_facts hl
  ⟨p, hp, hn, hpt, h.podsFin p hp⟩

/-- **fair rounds keep the agreement with the oracle** -/
theorem truth_round (orc : String → Outcome) (hb : Busy jo s) (ht : Truth orc jo s)
    (hpe : PState ok j0 jo F0 e) (hpods : e.pods = s.pods.map (sweepPod orc)) (hcw : Canon ok j0 jo' F0 w)
    (hname : jo'.name = jo.name) (hdw : w.d = e.d) (hrs : RefsStep e jo jo' w) : Truth orc jo' w := by
  have hce := hpe.canon
  -- the pods of `e` agree with the oracle
  have hpodsE : ∀ p ∈ e.pods, p.pod.isOOMKilled = false ∧ (p.pod.phase = .succeeded ↔ orc p.pod.name = .succeed) := by
    intro p hp
    rw [hpods] at hp
    obtain ⟨p0, hp0, rfl⟩ := List.mem_map.mp hp
    exact sweepPod_truth orc p0 (ht.pods p0 hp0).1 (ht.pods p0 hp0).2
  have hpodsW : ∀ p ∈ w.pods, p.pod.isOOMKilled = false ∧
      (p.pod.isFinished = true → (p.pod.phase = .succeeded ↔ orc p.pod.name = .succeed)) := by
    intro p hp
    rcases hrs.2 with e1 | e1
    · rw [e1] at hp; exact ⟨(hpodsE p hp).1, fun _ => (hpodsE p hp).2⟩
    · rw [e1] at hp
      rcases List.mem_append.mp hp with hp | hp
      · exact ⟨(hpodsE p hp).1, fun _ => (hpodsE p hp).2⟩
      · simp only [List.mem_singleton] at hp; subst hp
        exact ⟨rfl, fun hx => by cases hx⟩
  have hsubE : ∀ p ∈ e.pods, p ∈ w.pods := by
    intro p hp
    rcases hrs.2 with e1 | e1
    · rw [e1]; exact hp
    · rw [e1]; exact List.mem_append_left _ hp
  -- the task behind a refreshed live ref
  have hliveTask : ∀ r ∈ jo.job.status.tasks, LiveRef r → ∃ t p, lookTask e r.name = some t ∧ p ∈ e.pods ∧
      p.pod.name = r.name ∧ podTask e.clock p = some t ∧ p.pod.isFinished = true ∧ refP e r = getTaskRef (some r) t := by
    intro r hr hl
    have hn := ht.noLoss r hr
    obtain ⟨p0, hp0, hn0⟩ := List.mem_map.mp hn
    have hpe' : sweepPod orc p0 ∈ e.pods := by rw [hpods]; exact List.mem_map_of_mem hp0
    have hnE : (sweepPod orc p0).pod.name = r.name := by rw [sweepPod_name]; exact hn0
    have hfind := findPod_of_mem_nodup hce.pods.nodup hpe'
    obtain ⟨t, htk⟩ := podTask_of_noPanic (hce.pods.sane _ hpe').1
    have hlook : lookTask e r.name = some t := by
      unfold lookTask; rw [← hnE, hfind]; exact htk
    refine ⟨t, sweepPod orc p0, hlook, hpe', hnE, htk, hpe.podsFin _ hpe', ?_⟩
    unfold refP; rw [hlook]
  -- retry numbers of the refs of `jo'` that come from `jo`
  have hretryOld : ∀ r ∈ jo.job.status.tasks, (r.retryIndex : Int) < jo.job.status.tasks.length := by
    intro r hr
    have := hce.retries.mem_iff.mp (List.mem_map_of_mem (f := (·.retryIndex)) hr)
    obtain ⟨i, hi, hie⟩ := List.mem_map.mp this
    have := List.mem_range.mp hi
    rw [← hie]; omega
  -- the extra ref carries the next retry number
  have hextra : ∀ g ∈ jo'.job.status.tasks, ∀ t, g = getTaskRef none t → lookTask w t.name = some t →
      t.name = taskName jo.name e.d.hash jo.job.status.tasks.length →
      g.retryIndex = jo.job.status.tasks.length ∧ g.name = t.name ∧
      ∃ p ∈ w.pods, p.pod.name = t.name ∧ podTask w.clock p = some t := by
    intro g hg t hgt hlt htn
    obtain ⟨p, hp, hpt⟩ := lookTask_some hlt
    have hpm := findPod_some hp
    have h2 : g.name = t.name := by rw [hgt, getTaskRef_name, (podTask_ok hpt).1]
    have h1 := (hcw.refOK hg).2.1
    rw [h2, htn, hname, hdw] at h1
    exact ⟨((taskName_inj hce.nodash hce.nodash h1).2).symm, h2, p, hpm.1, hpm.2, hpt⟩
  -- a finished pod of `w` that is the pod of a task
  have hpodRes : ∀ {now : Time}, ∀ p ∈ w.pods, ∀ t, podTask now p = some t → t.ref.finishTimestamp.isSome = true →
      (t.ref.status.result = .succeeded ↔ orc p.pod.name = .succeed) := by
    intro now p hp t hpt htf
    have hfin : p.pod.isFinished = true := by
      cases hx : p.pod.isFinished with
      | true => rfl
      | false =>
        have := (podTask_fields hpt).2.2.2.2.2.2.2 hx
        rw [this] at htf; cases htf
    rw [(podTask_fields hpt).2.2.2.2.1, result_of_phase (hpodsW p hp).1 hfin]
    exact (hpodsW p hp).2 hfin
  -- every ref of `jo'`, by origin
  have hcases : ∀ g ∈ jo'.job.status.tasks,
      (∃ r ∈ jo.job.status.tasks, Dead r ∧ g = refP e r) ∨
      (∃ r ∈ jo.job.status.tasks, LiveRef r ∧ g = refP e r) ∨
      (∃ t, g = getTaskRef none t ∧ lookTask w t.name = some t ∧
        t.name = taskName jo.name e.d.hash jo.job.status.tasks.length ∧ ∀ r ∈ jo.job.status.tasks, Dead r) := by
    intro g hg
    rcases hrs.1 g hg with ⟨r, hr, hgr⟩ | hx
    · rcases hb.shape r hr with hd | hl
      · exact Or.inl ⟨r, hr, hd, hgr⟩
      · exact Or.inr (Or.inl ⟨r, hr, hl, hgr⟩)
    · exact Or.inr (Or.inr hx)
  refine ⟨hpodsW, ?_, ?_, ?_, ?_⟩
  · -- no loss
    intro g hg
    rcases hrs.1 g hg with ⟨r, hr, rfl⟩ | ⟨t, hgt, hlt, htn, _⟩
    · rw [(hpe.refP_facts hr).2.2.1]
      obtain ⟨p0, hp0, hn0⟩ := List.mem_map.mp (ht.noLoss r hr)
      have hpe' : sweepPod orc p0 ∈ e.pods := by rw [hpods]; exact List.mem_map_of_mem hp0
      exact List.mem_map.mpr ⟨_, hsubE _ hpe', by rw [sweepPod_name]; exact hn0⟩
    · obtain ⟨_, hn, p, hp, hpn, _⟩ := hextra g hg t hgt hlt htn
      exact List.mem_map.mpr ⟨p, hp, by rw [hpn, hn]⟩
  · -- recorded as over without success: the oracle says fail
    intro g hg hgf hgs
    rcases hcases g hg with ⟨r, hr, hd, rfl⟩ | ⟨r, hr, hl, rfl⟩ | ⟨t, hgt, hlt, htn, _⟩
    · rw [(hpe.refP_facts hr).2.2.1]
      exact ht.failed r hr hd.fin hd.nosucc
    · obtain ⟨t, p, hlook, hp, hpn, hpt, hpf, hre⟩ := hliveTask r hr hl
      obtain ⟨tg, tf, _⟩ := hpe.task_facts hlook
      obtain ⟨_, k2, _⟩ := live_getTaskRef hl tg tf
      rw [(hpe.refP_facts hr).2.2.1]
      rw [hre, k2] at hgs
      have : orc p.pod.name ≠ .succeed := fun hx => hgs ((hpodRes p (hsubE p hp) t hpt tf).mpr hx)
      rw [← hpn]
      exact outcome_fail_of_ne this
    · obtain ⟨_, hn, p, hp, hpn, hpt⟩ := hextra g hg t hgt hlt htn
      have htf : t.ref.finishTimestamp.isSome = true := by
        rw [hgt, (getTaskRef_none_fields t).2.1] at hgf; exact hgf
      rw [hgt, (getTaskRef_none_fields t).1] at hgs
      have : orc p.pod.name ≠ .succeed := fun hx => hgs ((hpodRes p hp t hpt htf).mpr hx)
      rw [hn, ← hpn]
      exact outcome_fail_of_ne this
  · -- recorded as successful: the oracle says succeed, and it is the latest attempt
    intro g hg hgf hgs
    rcases hcases g hg with ⟨r, hr, hd, rfl⟩ | ⟨r, hr, hl, rfl⟩ | ⟨t, hgt, hlt, htn, hall⟩
    · exact absurd hgs ((hpe.refP_facts hr).2.2.2.2.1 hd).1.nosucc
    · obtain ⟨t, p, hlook, hp, hpn, hpt, hpf, hre⟩ := hliveTask r hr hl
      obtain ⟨tg, tf, _⟩ := hpe.task_facts hlook
      obtain ⟨_, k2, _⟩ := live_getTaskRef hl tg tf
      refine ⟨?_, ?_⟩
      · rw [(hpe.refP_facts hr).2.2.1, ← hpn]
        rw [hre, k2] at hgs
        exact (hpodRes p (hsubE p hp) t hpt tf).mp hgs
      · intro g' hg'
        rw [(hpe.refP_facts hr).2.1]
        rcases hrs.1 g' hg' with ⟨r', hr', rfl⟩ | ⟨t', _, _, _, hall'⟩
        · rw [(hpe.refP_facts hr').2.1]; exact ht.live r hr hl r' hr'
        · exact absurd hl (hall' r hr).not_live
    · obtain ⟨hgr, hn, p, hp, hpn, hpt⟩ := hextra g hg t hgt hlt htn
      have htf : t.ref.finishTimestamp.isSome = true := by
        rw [hgt, (getTaskRef_none_fields t).2.1] at hgf; exact hgf
      refine ⟨?_, ?_⟩
      · rw [hgt, (getTaskRef_none_fields t).1] at hgs
        rw [hn, ← hpn]
        exact (hpodRes p hp t hpt htf).mp hgs
      · intro g' hg'
        rw [hgr]
        rcases hrs.1 g' hg' with ⟨r', hr', rfl⟩ | ⟨t', hgt', hlt', htn', _⟩
        · rw [(hpe.refP_facts hr').2.1]; exact Int.le_of_lt (hretryOld r' hr')
        · rw [(hextra g' hg' t' hgt' hlt' htn').1]; exact Int.le_refl _
  · -- live: the latest attempt
    intro g hg hgl
    rcases hcases g hg with ⟨r, hr, hd, rfl⟩ | ⟨r, hr, hl, rfl⟩ | ⟨t, hgt, hlt, htn, hall⟩
    · have := (hpe.refP_facts hr).1
      rw [hgl.unfin] at this; cases this
    · have := (hpe.refP_facts hr).1
      rw [hgl.unfin] at this; cases this
    · obtain ⟨hgr, _⟩ := hextra g hg t hgt hlt htn
      intro g' hg'
      rw [hgr]
      rcases hrs.1 g' hg' with ⟨r', hr', rfl⟩ | ⟨t', hgt', hlt', htn', _⟩
      · rw [(hpe.refP_facts hr').2.1]; exact Int.le_of_lt (hretryOld r' hr')
      · rw [(hextra g' hg' t' hgt' hlt' htn').1]; exact Int.le_refl _

end

end Furiko.JobCtl.Live
