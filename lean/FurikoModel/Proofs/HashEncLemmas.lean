import FurikoModel.Model.HashEnc
/-! helper lemmas about `Model/HashEnc.lean` (core Lean only) -/
namespace Furiko.HashEnc

def Digit (b : Nat) : Prop := 48 ≤ b ∧ b ≤ 57

theorem decBytesAux_range (fuel n : Nat) (acc : List Nat) (h : ∀ b ∈ acc, Digit b) :
    ∀ b ∈ decBytesAux fuel n acc, Digit b := by
  induction fuel generalizing n acc with
  | zero => simpa [decBytesAux] using h
  | succ f ih =>
    unfold decBytesAux
    split
    · intro b hb
      rcases List.mem_cons.1 hb with rfl | hb
      · unfold Digit; omega
      · exact h b hb
    · apply ih
      intro b hb
      rcases List.mem_cons.1 hb with rfl | hb
      · unfold Digit; omega
      · exact h b hb

theorem decBytesAux_length_le (fuel n : Nat) (acc : List Nat) :
    acc.length ≤ (decBytesAux fuel n acc).length := by
  induction fuel generalizing n acc with
  | zero => simp [decBytesAux]
  | succ f ih =>
    unfold decBytesAux
    split
    · simp
    · exact Nat.le_trans (by simp) (ih _ _)

theorem decBytesAux_length_succ (fuel n : Nat) (acc : List Nat) :
    acc.length + 1 ≤ (decBytesAux (fuel + 1) n acc).length := by
  unfold decBytesAux
  split
  · simp
  · exact Nat.le_trans (by simp) (decBytesAux_length_le _ _ _)

theorem decBytes_range (u : Nat) : ∀ b ∈ decBytes u, Digit b :=
  decBytesAux_range _ _ _ (by simp)

theorem decBytes_ne_nil (u : Nat) : decBytes u ≠ [] := by
  intro h
  have := decBytesAux_length_succ u u []
  unfold decBytes at h
  rw [h] at this
  simp at this

theorem b32Char_ne_dash : ∀ v, v < 32 → b32Char v ≠ '-' := by decide

theorem b32First6_length (bs : List Nat) (h : bs ≠ []) : (b32First6 bs).length = 6 := by
  rcases bs with _ | ⟨a, _ | ⟨b, _ | ⟨c, _ | ⟨d, t⟩⟩⟩⟩ <;> simp_all [b32First6]

theorem b32First6_take4 (bs : List Nat) : b32First6 bs = b32First6 (bs.take 4) := by
  rcases bs with _ | ⟨a, _ | ⟨b, _ | ⟨c, _ | ⟨d, t⟩⟩⟩⟩ <;> simp [b32First6]

theorem b32First6_nodash (bs : List Nat) (h : ∀ b ∈ bs, b < 256) : '-' ∉ b32First6 bs := by
  rcases bs with _ | ⟨a, _ | ⟨b, _ | ⟨c, _ | ⟨d, t⟩⟩⟩⟩
  · simp [b32First6]
  · have ha := h a (by simp)
    simp only [b32First6, List.getD_cons_zero, List.getD_cons_succ, List.getD_nil, List.mem_cons, List.not_mem_nil,
      or_false, not_or]
    refine ⟨?_, ?_, by decide, by decide, by decide, by decide⟩ <;>
      exact fun e => b32Char_ne_dash _ (by omega) e.symm
  · have ha := h a (by simp); have hb := h b (by simp)
    simp only [b32First6, List.getD_cons_zero, List.getD_cons_succ, List.getD_nil, List.mem_cons, List.not_mem_nil,
      or_false, not_or]
    refine ⟨?_, ?_, ?_, ?_, by decide, by decide⟩ <;>
      exact fun e => b32Char_ne_dash _ (by omega) e.symm
  · have ha := h a (by simp); have hb := h b (by simp); have hc := h c (by simp)
    simp only [b32First6, List.getD_cons_zero, List.getD_cons_succ, List.getD_nil, List.mem_cons, List.not_mem_nil,
      or_false, not_or]
    refine ⟨?_, ?_, ?_, ?_, ?_, by decide⟩ <;>
      exact fun e => b32Char_ne_dash _ (by omega) e.symm
  · have ha := h a (by simp); have hb := h b (by simp); have hc := h c (by simp); have hd := h d (by simp)
    simp only [b32First6, List.getD_cons_zero, List.getD_cons_succ, List.mem_cons, List.not_mem_nil,
      or_false, not_or]
    refine ⟨?_, ?_, ?_, ?_, ?_, ?_⟩ <;>
      exact fun e => b32Char_ne_dash _ (by omega) e.symm

end Furiko.HashEnc

namespace Furiko.HashEnc

/-- what the six characters can see of the decimal digits: all of them when there are at most three, the first
three and the fourth divided by four otherwise — numbered 0 … 4109 -/
def codeOf (bs : List Nat) : Nat :=
  match bs with
  | [] => 0
  | [a] => a - 48
  | [a, b] => 10 + (a - 48) * 10 + (b - 48)
  | [a, b, c] => 110 + (a - 48) * 100 + (b - 48) * 10 + (c - 48)
  | a :: b :: c :: d :: _ => 1110 + ((a - 48) * 100 + (b - 48) * 10 + (c - 48)) * 3 + (d / 4 - 12)

def code (u : Nat) : Nat := codeOf (decBytes u)

theorem codeOf_lt (bs : List Nat) (h : ∀ b ∈ bs, Digit b) : codeOf bs < 4110 := by
  unfold Digit at h
  rcases bs with _ | ⟨a, _ | ⟨b, _ | ⟨c, _ | ⟨d, t⟩⟩⟩⟩
  · simp [codeOf]
  · have ha := h a (by simp); simp only [codeOf]; omega
  · have ha := h a (by simp); have hb := h b (by simp); simp only [codeOf]; omega
  · have ha := h a (by simp); have hb := h b (by simp); have hc := h c (by simp); simp only [codeOf]; omega
  · have ha := h a (by simp); have hb := h b (by simp); have hc := h c (by simp); have hd := h d (by simp)
    simp only [codeOf]; omega

theorem code_lt (u : Nat) : code u < 4110 := codeOf_lt _ (decBytes_range u)

theorem b32First6_of_codeOf (xs ys : List Nat) (hx : ∀ b ∈ xs, Digit b) (hy : ∀ b ∈ ys, Digit b)
    (hxn : xs ≠ []) (hyn : ys ≠ []) (e : codeOf xs = codeOf ys) : b32First6 xs = b32First6 ys := by
  unfold Digit at hx hy
  rcases xs with _ | ⟨a, _ | ⟨b, _ | ⟨c, _ | ⟨d, t⟩⟩⟩⟩ <;> try contradiction
  all_goals rcases ys with _ | ⟨a', _ | ⟨b', _ | ⟨c', _ | ⟨d', t'⟩⟩⟩⟩ <;> try contradiction
  all_goals simp only [codeOf] at e
  all_goals simp only [List.mem_cons, List.not_mem_nil, or_false, forall_eq_or_imp, forall_eq] at hx hy
  all_goals first
    | (exfalso; omega)
    | skip
  · obtain rfl : a = a' := by omega
    rfl
  · obtain rfl : a = a' := by omega
    obtain rfl : b = b' := by omega
    rfl
  · obtain rfl : a = a' := by omega
    obtain rfl : b = b' := by omega
    obtain rfl : c = c' := by omega
    rfl
  · obtain rfl : a = a' := by omega
    obtain rfl : b = b' := by omega
    obtain rfl : c = c' := by omega
    have hq : d / 4 = d' / 4 := by omega
    have h128 : d / 128 = d' / 128 := by omega
    simp only [b32First6, List.getD_cons_zero, List.getD_cons_succ, hq, h128]

theorem hashEnc_of_code (u v : Nat) (e : code u = code v) : hashEnc u = hashEnc v := by
  unfold hashEnc hashEncChars
  rw [b32First6_of_codeOf _ _ (decBytes_range u) (decBytes_range v) (decBytes_ne_nil u) (decBytes_ne_nil v) e]

end Furiko.HashEnc

namespace Furiko.HashEnc

theorem decBytesAux_length_ge4 (f n : Nat) (acc : List Nat) (h : 1000 ≤ n) :
    acc.length + 4 ≤ (decBytesAux (f + 4) n acc).length := by
  have h1 : ¬ n < 10 := by omega
  have h2 : ¬ n / 10 < 10 := by omega
  have h3 : ¬ n / 10 / 10 < 10 := by omega
  rw [show f + 4 = (f + 3) + 1 from rfl, decBytesAux, if_neg h1,
      show f + 3 = (f + 2) + 1 from rfl, decBytesAux, if_neg h2,
      show f + 2 = (f + 1) + 1 from rfl, decBytesAux, if_neg h3]
  have := decBytesAux_length_succ f (n / 10 / 10 / 10) ((48 + n / 10 / 10 % 10) :: (48 + n / 10 % 10) :: (48 + n % 10) :: acc)
  simp only [List.length_cons] at this
  omega

theorem decBytes_length_ge4 (u : Nat) (h : 1000 ≤ u) : 4 ≤ (decBytes u).length := by
  unfold decBytes
  have := decBytesAux_length_ge4 (u - 3) u [] h
  rw [show u - 3 + 4 = u + 1 by omega] at this
  simpa using this

theorem b32Char_mem : ∀ v, v < 32 → b32Char v ∈ b32Alphabet := by decide

theorem b32First6_alphabet (bs : List Nat) (h : ∀ b ∈ bs, b < 256) (hl : 4 ≤ bs.length) :
    ∀ c ∈ b32First6 bs, c ∈ b32Alphabet := by
  rcases bs with _ | ⟨a, _ | ⟨b, _ | ⟨c, _ | ⟨d, t⟩⟩⟩⟩ <;> simp at hl
  have ha := h a (by simp); have hb := h b (by simp); have hc := h c (by simp); have hd := h d (by simp)
  intro x hx
  simp only [b32First6, List.getD_cons_zero, List.getD_cons_succ, List.mem_cons, List.not_mem_nil, or_false] at hx
  rcases hx with rfl | rfl | rfl | rfl | rfl | rfl <;> exact b32Char_mem _ (by omega)

end Furiko.HashEnc

namespace Furiko.HashEnc

theorem decBytes_length_le3 (u : Nat) (h : u < 1000) : (decBytes u).length ≤ 3 := by
  unfold decBytes
  by_cases h1 : u < 10
  · rw [decBytesAux, if_pos h1]; simp
  · obtain ⟨f, hf⟩ : ∃ f, u + 1 = f + 3 := ⟨u - 2, by omega⟩
    rw [hf, show f + 3 = (f + 2) + 1 from rfl, decBytesAux, if_neg h1]
    by_cases h2 : u / 10 < 10
    · rw [show f + 2 = (f + 1) + 1 from rfl, decBytesAux, if_pos h2]; simp
    · rw [show f + 2 = (f + 1) + 1 from rfl, decBytesAux, if_neg h2, decBytesAux, if_pos (by omega)]; simp

theorem b32First6_padding (bs : List Nat) (h0 : bs ≠ []) (h3 : bs.length ≤ 3) : '=' ∈ b32First6 bs := by
  rcases bs with _ | ⟨a, _ | ⟨b, _ | ⟨c, _ | ⟨d, t⟩⟩⟩⟩
  · contradiction
  · simp [b32First6]
  · simp [b32First6]
  · simp [b32First6]
  · simp at h3

end Furiko.HashEnc
