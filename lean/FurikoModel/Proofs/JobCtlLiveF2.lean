/-
Liveness of the job controller, force-delete part 2: the parts of a pass on a killed Job that do not depend
on what `syncJobTasks` did to the pods — `Frame` (what every stage of a pass leaves alone), `sync_tail`
(`Reconciler.sync` after `syncJobTasks`) and `work_tail` (`SyncOne` and the `work` step around it).
Core Lean only.
-/
import FurikoModel.Proofs.JobCtlLiveF1

set_option linter.unusedSimpArgs false
set_option linter.unusedVariables false

namespace Furiko.JobCtl.Live
open Furiko Furiko.JobCtl Furiko.WQ Furiko.StatusLemmas Furiko.JobCtlPlan Furiko.Conv

/-- what the stages of a pass before the Job API calls leave alone: the Job, its events and cache, the pod
cache, the clock, the ready part of the work queue; caches stay in sync, no fault appears -/
structure Frame (s s' : Sys) : Prop where
  clock : s'.clock = s.clock
  d : s'.d = s.d
  cfg : s'.cfg = s.cfg
  job : s'.job = s.job
  jobEvs : s'.jobEvs = s.jobEvs
  jobCache : s'.jobCache = s.jobCache
  podCache : s'.podCache = s.podCache
  queue : s'.q.queue = s.q.queue
  dirty : s'.q.dirty = s.q.dirty
  processing : s'.q.processing = s.q.processing
  psync : PSync s → PSync s'
  nofault : NoFault s → NoFault s'

theorem Frame.refl (s : Sys) : Frame s s := ⟨rfl, rfl, rfl, rfl, rfl, rfl, rfl, rfl, rfl, rfl, id, id⟩

theorem Frame.trans {a b c : Sys} (h1 : Frame a b) (h2 : Frame b c) : Frame a c :=
  ⟨h2.clock.trans h1.clock, h2.d.trans h1.d, h2.cfg.trans h1.cfg, h2.job.trans h1.job, h2.jobEvs.trans h1.jobEvs,
   h2.jobCache.trans h1.jobCache, h2.podCache.trans h1.podCache, h2.queue.trans h1.queue, h2.dirty.trans h1.dirty,
   h2.processing.trans h1.processing, fun h => h2.psync (h1.psync h), fun h => h2.nofault (h1.nofault h)⟩

theorem Frame.of_markedT {key : String} {s s' : Sys} {N : List String} (h : MarkedT key s s' N) : Frame s s' :=
  ⟨h.clock, h.d, h.cfg, h.job, h.jobEvs, h.jobCache, h.podCache, h.queue, h.dirty, h.processing, h.psync, h.nofault⟩

theorem Frame.of_timers {key : String} {s s' : Sys} (h : TimersOnly key s s') : Frame s s' :=
  Frame.of_markedT (MarkedT.of_timers h)

theorem Frame.of_removed {s s' : Sys} {N : List String} (h : Removed s s' N) : Frame s s' :=
  ⟨h.clock, h.d, h.cfg, h.job, h.jobEvs, h.jobCache, h.podCache, by rw [h.q], by rw [h.q], by rw [h.q], h.psync,
   fun _ => h.nofault⟩

/-- **`Reconciler.sync` after `syncJobTasks`** on a Job whose kill timestamp has passed, the TTL not elapsed -/
theorem sync_tail (sp s6 : Sys) (jo : JobObj) (kt : Time) (rj5 : Job) (T : List Task) (hspec : KillSpec jo.job kt)
    (hle : kt ≤ sp.clock) (h6 : syncJobTasks sp jo jo.job = (s6, some (recompute sp.clock sp.d rj5 T)))
    (hk5 : KillSpec rj5 kt) (hs5 : SameSpec jo.job rj5) (hc6 : s6.clock = sp.clock) (hd6 : s6.d = sp.d)
    (hcfg6 : s6.cfg = sp.cfg)
    (httl : ∀ fin, (recompute sp.clock sp.d rj5 T).status.condition.finished = some fin →
      fin.finishTimestamp.getD zeroTime + getTTLAfterFinished jo.job sp.cfg > sp.clock) :
    ∃ s', sync sp jo = (s', recompute sp.clock sp.d rj5 T, jo.finalizer, true, false) ∧
      TimersOnly (jobKey jo) s6 s' := by
  have hF : KillSpec (recompute sp.clock sp.d rj5 T) kt := hk5.recompute _ _ _
  have hsF : SameSpec jo.job (recompute sp.clock sp.d rj5 T) := hs5.trans (recompute_sameSpec sp.clock sp.d rj5 T).1
  have hstage : syncTasksStage sp jo = (s6, some (recompute sp.clock sp.d rj5 T)) := by
    unfold syncTasksStage
    have h1 : isStarted jo.job = true := hspec.started
    have h2 : isDeleted jo.job = false := by unfold isDeleted; rw [hspec.del]; rfl
    simp only [h1, h2, Bool.not_false, Bool.and_self, ↓reduceIte]
    exact h6
  have hle6 : kt ≤ s6.clock := by rw [hc6]; exact hle
  have hu2 : (syncJobStatusFromTaskRefs s6 (jobKey jo) (recompute sp.clock sp.d rj5 T)).2 =
      recompute sp.clock sp.d rj5 T := by
    rw [syncJobStatus_snd', hd6]
    exact statusOf_idem_k sp.clock s6.clock sp.d (updateJobTaskRefs sp.clock rj5 T) kt
      (hk5.congr (updateJobTaskRefs_sameSpec sp.clock rj5 T) rfl) hle hle6
  have hu1 := syncJobStatus_fst s6 (jobKey jo) (recompute sp.clock sp.d rj5 T)
  generalize hU : syncJobStatusFromTaskRefs s6 (jobKey jo) (recompute sp.clock sp.d rj5 T) = U at hu1 hu2
  obtain ⟨s7, rj7⟩ := U
  simp only at hu1 hu2
  subst hu2
  have hst7 := hu1.static
  have hT : ∃ s8, handleTTL s7 jo (recompute sp.clock sp.d rj5 T) = (s8, true) ∧ TimersOnly (jobKey jo) s7 s8 := by
    cases hfin : (recompute sp.clock sp.d rj5 T).status.condition.finished with
    | none => exact ⟨s7, handleTTL_unfinished s7 jo _ hfin, TimersOnly.refl _ _⟩
    | some fin =>
      have he := httl fin hfin
      have hc7 : s7.clock = sp.clock := hst7.1.trans hc6
      have hcfg7 : s7.cfg = sp.cfg := hst7.2.2.1.trans hcfg6
      refine ⟨_, handleTTL_early s7 jo _ fin hF.del hfin (by rw [hc7, hcfg7, getTTL_sameSpec hsF]; exact he),
        enqueueAfter_timersOnly _ _ _⟩
  obtain ⟨s8, hT8, ht8⟩ := hT
  refine ⟨s8, ?_, hu1.trans ht8⟩
  rw [sync_eq]
  simp only [hstage, hU, hT8, handleFinalizer_live s8 jo _ jo.finalizer hF.del,
    finalizerStatusInput_live s8 jo _ jo.finalizer hF.del, statusHasNullTime_live s6 _ hF.del]

/-- **`SyncOne` and the `work` step around it**, given what `Reconciler.sync` returned and left -/
theorem work_tail {jo : JobObj} {s : Sys} (hf : Fresh jo s) (hwf : Retry.WF s.q) (k : String) (rest : List String)
    (hq : (s.q.advance s.clock).queue = k :: rest) (s' : Sys) (rjF : Job)
    (hsync : sync (passStart s (popQ (s.q.advance s.clock) k rest)) jo = (s', rjF, jo.finalizer, true, false))
    (hadm : rjF.admissionError = jo.job.admissionError)
    (hfr : Frame (passStart s (popQ (s.q.advance s.clock) k rest)) s') :
    ∃ jo', (work s).1.job = some jo' ∧ jo'.name = jo.name ∧ jo'.uid = jo.uid ∧ jo'.finalizer = jo.finalizer ∧
      jo'.job = { jo.job with status := rjF.status } ∧
      JSync (work s).1 ∧ PSync (work s).1 ∧ (work s).1.podCache = s.pods ∧ (work s).1.pods = s'.pods ∧
      (work s).1.podEvs = s'.podEvs ∧ (work s).1.clock = s.clock ∧ (work s).1.d = s.d ∧ (work s).1.cfg = s.cfg ∧
      (work s).1.faults = [] ∧ Retry.WF (work s).1.q := by
  obtain ⟨a1, _, _, _, _, _, _⟩ := Retry.advance_facts s.q s.clock hwf
  have hnf : NoFault (passStart s (popQ (s.q.advance s.clock) k rest)) := ⟨hf.faults, fun f h => by cases h⟩
  have hps0 : PSync (passStart s (popQ (s.q.advance s.clock) k rest)) := by
    unfold PSync
    show s.podEvs.foldl applyPEv s.podCache = s.pods
    rw [hf.podEvs, hf.podCache]; rfl
  generalize hspdef : passStart s (popQ (s.q.advance s.clock) k rest) = sp at *
  have e_job : sp.job = some jo := by rw [← hspdef]; exact hf.job
  have e_jc : sp.jobCache = some jo := by rw [← hspdef]; exact hf.jobCache
  have e_jev : sp.jobEvs = [] := by rw [← hspdef]; exact hf.jobEvs
  have e_pc : sp.podCache = s.pods := by rw [← hspdef]; exact hf.podCache
  have e_clock : sp.clock = s.clock := by rw [← hspdef]; rfl
  have e_d : sp.d = s.d := by rw [← hspdef]; rfl
  have e_cfg : sp.cfg = s.cfg := by rw [← hspdef]; rfl
  have e_q1 : sp.q.queue = rest := by rw [← hspdef]; rfl
  have e_q2 : sp.q.dirty = (s.q.advance s.clock).dirty.erase k := by rw [← hspdef]; rfl
  have e_q3 : sp.q.processing = k :: (s.q.advance s.clock).processing := by rw [← hspdef]; rfl
  have hnf' : NoFault s' := hfr.nofault hnf
  have hj' : s'.job = some jo := hfr.job.trans e_job
  have hps' : PSync s' := hfr.psync hps0
  have hone := syncOne_kill sp jo s' rjF e_jc hsync hadm hnf' hj'
  have hg := get_cons hq
  rw [work_some s k _ hg, hspdef, hone]
  simp only [if_true]
  have hqok := queue_after_ok (qs := s'.q) a1 hq (hfr.queue.trans e_q1) (hfr.dirty.trans e_q2) (hfr.processing.trans e_q3)
  by_cases hdiff : rjF.status = jo.job.status
  · have hc : ¬ (rjF.status ≠ jo.job.status) := fun h => h hdiff
    rw [if_neg hc]
    have hjeq : jo.job = { jo.job with status := rjF.status } := by rw [hdiff]
    refine ⟨jo, hj', rfl, rfl, rfl, hjeq, ?_, hps', hfr.podCache.trans e_pc, rfl, rfl, hfr.clock.trans e_clock,
      hfr.d.trans e_d, hfr.cfg.trans e_cfg, hnf'.1, hqok.1⟩
    unfold JSync
    show s'.jobEvs.foldl applyJEv s'.jobCache = s'.job
    rw [hfr.jobEvs, e_jev, hfr.jobCache, e_jc, hj']; rfl
  · have hc : rjF.status ≠ jo.job.status := hdiff
    rw [if_pos hc]
    refine ⟨written jo rjF (s'.rv + 1), rfl, rfl, rfl, rfl, rfl, ?_, hps', hfr.podCache.trans e_pc, rfl, rfl,
      hfr.clock.trans e_clock, hfr.d.trans e_d, hfr.cfg.trans e_cfg, hnf'.1, hqok.1⟩
    unfold JSync
    show (s'.jobEvs ++ [JEv.upsert (written jo rjF (s'.rv + 1))]).foldl applyJEv s'.jobCache = _
    rw [List.foldl_append]
    rfl

end Furiko.JobCtl.Live
