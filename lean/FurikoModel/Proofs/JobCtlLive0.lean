/-
Liveness of the job controller, part 0 (pure): `SortTaskRefs` is canonical on refs with pairwise
distinct names (its result only depends on the SET of refs), `GetTaskRef` / the lost-ref rule are
idempotent, hence `GenerateTaskRefs` is idempotent: refreshing a freshly refreshed ref list against
the same tasks changes nothing.  This is what makes a quiesced state of the job controller a
fixpoint ("the next pass computes the status it reads and writes nothing").  Core Lean only.
-/
import FurikoModel.Proofs.JobCtlInvStabPure

set_option linter.unusedSimpArgs false
set_option linter.unusedVariables false

namespace Furiko.JobCtl.Live
open Furiko Furiko.JobCtl Furiko.WQ Furiko.StatusLemmas

/-! ### the order of `SortTaskRefs` -/

/-- `a` may stand before `b` in a sorted ref list -/
def refLe (a b : TaskRef) : Prop := refLt b a = false

/-- creation time of a ref as `SortTaskRefs` reads it -/
def ctime (a : TaskRef) : Int := a.creationTimestamp.getD zeroTime

theorem refLt_iff (a b : TaskRef) :
    refLt a b = true ↔ ctime a < ctime b ∨ (ctime a = ctime b ∧ a.name < b.name) := by
  unfold refLt ctime
  by_cases hc : a.creationTimestamp.getD zeroTime = b.creationTimestamp.getD zeroTime
  · rw [if_neg (by simpa using hc)]
    simp only [decide_eq_true_eq, hc, true_and]
    constructor
    · intro h; exact Or.inr h
    · rintro (h | h)
      · exact absurd h (Int.lt_irrefl _)
      · exact h
  · rw [if_pos hc]
    simp only [decide_eq_true_eq, hc, false_and, or_false]

theorem refLe_iff (a b : TaskRef) :
    refLe a b ↔ ctime a < ctime b ∨ (ctime a = ctime b ∧ a.name ≤ b.name) := by
  unfold refLe
  have h := refLt_iff b a
  constructor
  · intro hf
    have hn : ¬ (ctime b < ctime a ∨ (ctime b = ctime a ∧ b.name < a.name)) := by
      intro hx; rw [h.mpr hx] at hf; cases hf
    by_cases h1 : ctime a < ctime b
    · exact Or.inl h1
    · have h2 : ctime a = ctime b := by
        have : ¬ ctime b < ctime a := fun x => hn (Or.inl x)
        omega
      exact Or.inr ⟨h2, String.not_lt.mp (fun x => hn (Or.inr ⟨h2.symm, x⟩))⟩
  · intro hx
    cases hf : refLt b a with
    | false => rfl
    | true =>
      rcases h.mp hf with h1 | ⟨h1, h2⟩
      · rcases hx with h3 | ⟨h3, _⟩ <;> omega
      · rcases hx with h3 | ⟨_, h4⟩
        · omega
        · exact absurd h2 (String.not_lt.mpr h4)

theorem refLt_asymm {a b : TaskRef} (h : refLt a b = true) : refLt b a = false := by
  show refLe a b
  rw [refLe_iff]
  rcases (refLt_iff a b).mp h with h1 | ⟨h1, h2⟩
  · exact Or.inl h1
  · refine Or.inr ⟨h1, ?_⟩
    exact String.not_lt.mp (fun x => String.lt_irrefl _ (String.lt_trans h2 x))

theorem refLe_total (a b : TaskRef) : refLe a b ∨ refLe b a := by
  unfold refLe
  cases h : refLt b a with
  | false => exact Or.inl rfl
  | true => exact Or.inr (refLt_asymm h)

theorem refLe_trans {a b c : TaskRef} (h1 : refLe a b) (h2 : refLe b c) : refLe a c := by
  rw [refLe_iff] at *
  rcases h1 with h1 | ⟨h1, h1'⟩
  · rcases h2 with h2 | ⟨h2, _⟩
    · exact Or.inl (by omega)
    · exact Or.inl (by omega)
  · rcases h2 with h2 | ⟨h2, h2'⟩
    · exact Or.inl (by omega)
    · exact Or.inr ⟨by omega, String.le_trans h1' h2'⟩

/-- two refs that may stand in either order have the same name -/
theorem refLe_antisymm {a b : TaskRef} (h1 : refLe a b) (h2 : refLe b a) :
    a.name = b.name := by
  rw [refLe_iff] at *
  rcases h1 with h1 | ⟨h1, h1'⟩
  · rcases h2 with h2 | ⟨h2, _⟩ <;> omega
  · rcases h2 with h2 | ⟨_, h2'⟩
    · omega
    · exact String.le_antisymm h1' h2'

theorem insertRef_sorted (x : TaskRef) : ∀ (l : List TaskRef), l.Pairwise refLe → (insertRef x l).Pairwise refLe
  | [], _ => by simp [insertRef]
  | y :: ys, h => by
    unfold insertRef
    have hy := List.pairwise_cons.mp h
    by_cases hlt : refLt x y = true
    · rw [if_pos hlt]
      refine List.pairwise_cons.mpr ⟨?_, h⟩
      intro z hz
      have hxy : refLe x y := refLt_asymm hlt
      rcases List.mem_cons.mp hz with rfl | hz'
      · exact hxy
      · exact refLe_trans hxy (hy.1 z hz')
    · rw [if_neg hlt]
      refine List.pairwise_cons.mpr ⟨?_, insertRef_sorted x ys hy.2⟩
      intro z hz
      rcases (mem_insertRef x z ys).mp hz with rfl | hz'
      · show refLt z y = false
        cases h' : refLt z y <;> simp_all
      · exact hy.1 z hz'

theorem foldl_insertRef_sorted : ∀ (l acc : List TaskRef), acc.Pairwise refLe →
    (l.foldl (fun acc x => insertRef x acc) acc).Pairwise refLe
  | [], acc, h => h
  | x :: rest, acc, h => by
    simp only [List.foldl_cons]
    exact foldl_insertRef_sorted rest _ (insertRef_sorted x acc h)

theorem sortTaskRefs_sorted (l : List TaskRef) : (sortTaskRefs l).Pairwise refLe := by
  unfold sortTaskRefs
  exact foldl_insertRef_sorted l [] List.Pairwise.nil

/-- refs with pairwise distinct names: a member is determined by its name -/
theorem eq_of_name_nodup {l : List TaskRef} (hnd : (l.map (·.name)).Nodup) {a b : TaskRef} (ha : a ∈ l) (hb : b ∈ l)
    (e : a.name = b.name) : a = b := by
  induction l with
  | nil => cases ha
  | cons x rest ih =>
    simp only [List.map_cons, List.nodup_cons] at hnd
    rcases List.mem_cons.mp ha with rfl | ha'
    · rcases List.mem_cons.mp hb with rfl | hb'
      · rfl
      · exact absurd (List.mem_map.mpr ⟨b, hb', e.symm⟩) hnd.1
    · rcases List.mem_cons.mp hb with rfl | hb'
      · exact absurd (List.mem_map.mpr ⟨a, ha', e⟩) hnd.1
      · exact ih hnd.2 ha' hb'

/-- **`SortTaskRefs` is canonical**: on refs with pairwise distinct names the result depends only on
the set of refs, not on the order they are given in -/
theorem sortTaskRefs_perm_eq {l l' : List TaskRef} (hp : l.Perm l') (hnd : (l.map (·.name)).Nodup) :
    sortTaskRefs l = sortTaskRefs l' := by
  have p1 : (sortTaskRefs l).Perm (sortTaskRefs l') :=
    (sortTaskRefs_perm l).trans (hp.trans (sortTaskRefs_perm l').symm)
  refine List.Perm.eq_of_pairwise ?_ (sortTaskRefs_sorted l) (sortTaskRefs_sorted l') p1
  intro a b ha hb hab hba
  have ha' : a ∈ l := (mem_sortTaskRefs a l).mp ha
  have hb' : b ∈ l := hp.mem_iff.mpr ((mem_sortTaskRefs b l').mp hb)
  exact eq_of_name_nodup hnd ha' hb' (refLe_antisymm hab hba)

/-- a sorted list is left as it is -/
theorem sortTaskRefs_of_sorted {l : List TaskRef} (hs : l.Pairwise refLe) (hnd : (l.map (·.name)).Nodup) :
    sortTaskRefs l = l := by
  refine List.Perm.eq_of_pairwise ?_ (sortTaskRefs_sorted l) hs (sortTaskRefs_perm l)
  intro a b ha hb hab hba
  exact eq_of_name_nodup hnd ((mem_sortTaskRefs a l).mp ha) hb (refLe_antisymm hab hba)

theorem sortTaskRefs_idem {l : List TaskRef} (hnd : (l.map (·.name)).Nodup) :
    sortTaskRefs (sortTaskRefs l) = sortTaskRefs l :=
  sortTaskRefs_of_sorted (sortTaskRefs_sorted l) (((sortTaskRefs_perm l).map _).nodup_iff.mpr hnd)

/-! ### `GenerateTaskRefs` in canonical form -/

/-- the task of that name in a task list -/
def findTask (T : List Task) (n : String) : Option Task := T.find? (fun t => t.name == n)

/-- what `GenerateTaskRefs` makes of an existing ref: `GetTaskRef` against the task of its name, or the
lost-ref rule when no such task is listed -/
def refresh (now : Time) (T : List Task) (r : TaskRef) : TaskRef :=
  match findTask T r.name with
  | some t => getTaskRef (some r) t
  | none => lostRef now r

/-- the listed tasks that no existing ref names -/
def newTasks (ex : List TaskRef) (T : List Task) : List Task :=
  T.filter (fun t => !(ex.map (·.name)).contains t.name)

/-- the refs `GenerateTaskRefs` produces, before sorting, existing refs first -/
def canonRefs (now : Time) (ex : List TaskRef) (T : List Task) : List TaskRef :=
  ex.map (refresh now T) ++ (newTasks ex T).map (getTaskRef none)

theorem findTask_some {T : List Task} {n : String} {t : Task} (h : findTask T n = some t) : t ∈ T ∧ t.name = n := by
  unfold findTask at h
  exact ⟨List.mem_of_find?_eq_some h, by simpa using List.find?_some h⟩

theorem findTask_none {T : List Task} {n : String} (h : findTask T n = none) : n ∉ T.map (·.name) := by
  unfold findTask at h
  intro hm
  obtain ⟨t, ht, rfl⟩ := List.mem_map.mp hm
  have := List.find?_eq_none.mp h t ht
  simp at this

theorem findTask_of_mem {T : List Task} (hnd : (T.map (·.name)).Nodup) {t : Task} (ht : t ∈ T) :
    findTask T t.name = some t := by
  induction T with
  | nil => cases ht
  | cons x rest ih =>
    simp only [List.map_cons, List.nodup_cons] at hnd
    unfold findTask
    rw [List.find?_cons]
    by_cases hx : x.name = t.name
    · have : x = t := by
        rcases List.mem_cons.mp ht with h | h
        · exact h.symm
        · exact absurd (List.mem_map.mpr ⟨t, h, hx.symm⟩) hnd.1
      simp [this]
    · have hne : (x.name == t.name) = false := by simpa using hx
      rw [hne]
      rcases List.mem_cons.mp ht with h | h
      · exact absurd (by rw [h]) hx
      · exact ih hnd.2 h

theorem lookupRef_none {ex : List TaskRef} {n : String} (h : n ∉ ex.map (·.name)) : lookupRef ex n = none := by
  unfold lookupRef
  apply List.find?_eq_none.mpr
  intro r hr
  have hr' := List.mem_reverse.mp hr
  simp only [beq_iff_eq]
  intro e
  exact h (List.mem_map.mpr ⟨r, hr', e⟩)

theorem refresh_name (now : Time) (T : List Task) (hok : ∀ t ∈ T, TaskOK t) (r : TaskRef) :
    (refresh now T r).name = r.name := by
  unfold refresh
  cases h : findTask T r.name with
  | none => exact (lostRef_fields now r).1
  | some t =>
    have := findTask_some h
    simp only
    rw [getTaskRef_name, hok t this.1, this.2]

theorem nodup_of_names {l : List TaskRef} (h : (l.map (·.name)).Nodup) : l.Nodup := by
  unfold List.Nodup at *
  exact List.Pairwise.of_map (·.name) (fun a b hab e => hab (by rw [e])) h

theorem canonRefs_names (now : Time) (ex : List TaskRef) (T : List Task) (hok : ∀ t ∈ T, TaskOK t) :
    (canonRefs now ex T).map (·.name) = ex.map (·.name) ++ (newTasks ex T).map (·.name) := by
  unfold canonRefs
  rw [List.map_append, List.map_map, List.map_map]
  congr 1
  · apply List.map_congr_left
    intro r _
    exact refresh_name now T hok r
  · apply List.map_congr_left
    intro t ht
    simp only [Function.comp]
    rw [getTaskRef_name, hok t (List.mem_filter.mp ht).1]

theorem canonRefs_names_nodup (now : Time) (ex : List TaskRef) (T : List Task) (hex : (ex.map (·.name)).Nodup)
    (hT : (T.map (·.name)).Nodup) (hok : ∀ t ∈ T, TaskOK t) : ((canonRefs now ex T).map (·.name)).Nodup := by
  rw [canonRefs_names now ex T hok, List.nodup_append]
  refine ⟨hex, (List.filter_sublist.map _).nodup hT, ?_⟩
  intro a ha b hb e
  subst e
  obtain ⟨t, ht, rfl⟩ := List.mem_map.mp hb
  have := (List.mem_filter.mp ht).2
  simp only [Bool.not_eq_true', ← Bool.not_eq_true] at this
  rw [List.contains_iff_mem] at this
  exact this ha

/-- **canonical form of `GenerateTaskRefs`**: with pairwise distinct names on both sides the result is
the sorted list of the refreshed existing refs and of the refs of the tasks that are new -/
theorem generateTaskRefs_canon (now : Time) (ex : List TaskRef) (T : List Task) (hex : (ex.map (·.name)).Nodup)
    (hT : (T.map (·.name)).Nodup) (hok : ∀ t ∈ T, TaskOK t) :
    generateTaskRefs now ex T = sortTaskRefs (canonRefs now ex T) := by
  have hcn := canonRefs_names_nodup now ex T hex hT hok
  have hgn := generateTaskRefs_names_nodup now ex T hex hT hok
  unfold generateTaskRefs at hgn ⊢
  simp only at hgn ⊢
  have hL1 := ((sortTaskRefs_perm _).map (·.name)).nodup_iff.mp hgn
  apply sortTaskRefs_perm_eq _ hL1
  rw [List.perm_ext_iff_of_nodup (nodup_of_names hL1) (nodup_of_names hcn)]
  intro r
  unfold canonRefs
  simp only [List.mem_append, List.mem_map, List.mem_filter]
  constructor
  · rintro (⟨t, ht, rfl⟩ | ⟨e, ⟨he, hl⟩, rfl⟩)
    · by_cases hin : t.name ∈ ex.map (·.name)
      · obtain ⟨e, he, hen⟩ := List.mem_map.mp hin
        left
        refine ⟨e, he, ?_⟩
        unfold refresh
        rw [hen, findTask_of_mem hT ht, ← hen, lookupRef_of_nodup ex hex e he]
      · right
        refine ⟨t, ?_, by rw [lookupRef_none hin]⟩
        unfold newTasks
        rw [List.mem_filter]
        refine ⟨ht, ?_⟩
        simp only [Bool.not_eq_true', ← Bool.not_eq_true]
        rw [List.contains_iff_mem]
        exact hin
    · left
      refine ⟨e, he, ?_⟩
      simp only [Bool.not_eq_true', ← Bool.not_eq_true] at hl
      rw [List.contains_iff_mem] at hl
      unfold refresh
      cases hf : findTask T e.name with
      | none => rfl
      | some t => exact absurd (List.mem_map.mpr ⟨t, (findTask_some hf).1, (findTask_some hf).2⟩) hl
  · rintro (⟨e, he, rfl⟩ | ⟨t, ht, rfl⟩)
    · unfold refresh
      cases hf : findTask T e.name with
      | none =>
        right
        refine ⟨e, ⟨he, ?_⟩, rfl⟩
        simp only [Bool.not_eq_true', ← Bool.not_eq_true]
        rw [List.contains_iff_mem]
        exact findTask_none hf
      | some t =>
        left
        have := findTask_some hf
        refine ⟨t, this.1, ?_⟩
        rw [this.2, lookupRef_of_nodup ex hex e he]
    · unfold newTasks at ht
      rw [List.mem_filter] at ht
      have hl := ht.2
      simp only [Bool.not_eq_true', ← Bool.not_eq_true] at hl
      rw [List.contains_iff_mem] at hl
      left
      exact ⟨t, ht.1, by rw [lookupRef_none hl]⟩

theorem generateTaskRefs_perm_canon (now : Time) (ex : List TaskRef) (T : List Task) (hex : (ex.map (·.name)).Nodup)
    (hT : (T.map (·.name)).Nodup) (hok : ∀ t ∈ T, TaskOK t) :
    (generateTaskRefs now ex T).Perm (canonRefs now ex T) := by
  rw [generateTaskRefs_canon now ex T hex hT hok]
  exact sortTaskRefs_perm _

/-! ### idempotence -/

theorem lostRef_idem (now now' : Time) (e : TaskRef) : lostRef now' (lostRef now e) = lostRef now e := by
  unfold lostRef
  cases hf : e.finishTimestamp <;> cases hd : e.deletedStatus <;> simp [hf, hd]

theorem getTaskRef_idem_some (e : TaskRef) (t : Task)
    (hfin : t.ref.finishTimestamp.isSome = true → isFinalTaskState t.ref.status.state = true) :
    getTaskRef (some (getTaskRef (some e) t)) t = getTaskRef (some e) t := by
  unfold getTaskRef
  cases hf : t.ref.finishTimestamp with
  | none =>
    cases hr : t.ref.runningTimestamp <;> cases hef : e.finishTimestamp <;> cases her : e.runningTimestamp <;>
      simp [hf, hr, hef, her]
  | some f =>
    have hfinal := hfin (by rw [hf]; rfl)
    cases hr : t.ref.runningTimestamp <;> cases hef : e.finishTimestamp <;> cases her : e.runningTimestamp <;>
      cases hes : isFinalTaskState e.status.state <;>
      simp [hf, hr, hef, her, hes, hfinal]

theorem getTaskRef_idem_none (t : Task)
    (hfin : t.ref.finishTimestamp.isSome = true → isFinalTaskState t.ref.status.state = true) :
    getTaskRef (some (getTaskRef none t)) t = getTaskRef none t := by
  rcases t with ⟨tn, ⟨n, c, r, f, ri, pi, st, ds⟩, dts⟩
  unfold getTaskRef
  cases f with
  | none => cases r <;> simp
  | some f =>
    have hfinal : isFinalTaskState st.state = true := hfin rfl
    cases r <;> simp [hfinal]

/-- a ref list that is sorted, whose refs are all left alone by the refresh against `T'`, and that names
every task of `T'`, is a fixpoint of `GenerateTaskRefs` -/
theorem generateTaskRefs_fix (now' : Time) (G : List TaskRef) (T' : List Task) (hG : (G.map (·.name)).Nodup)
    (hs : G.Pairwise refLe) (hT : (T'.map (·.name)).Nodup) (hok : ∀ t ∈ T', TaskOK t)
    (hsub : ∀ t ∈ T', t.name ∈ G.map (·.name)) (hfix : ∀ g ∈ G, refresh now' T' g = g) :
    generateTaskRefs now' G T' = G := by
  rw [generateTaskRefs_canon now' G T' hG hT hok]
  have h1 : newTasks G T' = [] := by
    unfold newTasks
    apply List.filter_eq_nil_iff.mpr
    intro t ht
    simp only [Bool.not_eq_true', ← Bool.not_eq_true, Bool.not_not]
    rw [List.contains_iff_mem]
    exact fun h => h (hsub t ht)
  have h2 : G.map (refresh now' T') = G := by
    conv => rhs; rw [← List.map_id G]
    apply List.map_congr_left
    intro g hg
    simp only [id]
    exact hfix g hg
  unfold canonRefs
  rw [h1, h2, List.map_nil, List.append_nil]
  exact sortTaskRefs_of_sorted hs hG

/-- a task that reports a finish time reports a final state (true of every `PodTask`) -/
def TaskFinal (t : Task) : Prop := t.ref.finishTimestamp.isSome = true → isFinalTaskState t.ref.status.state = true

/-- refreshing a freshly generated ref against a task list that agrees with the one it was generated
from changes nothing -/
theorem refresh_generated (now now' : Time) (ex : List TaskRef) (T T' : List Task)
    (hT : (T.map (·.name)).Nodup) (hok : ∀ t ∈ T, TaskOK t) (hfin : ∀ t ∈ T, TaskFinal t)
    (g : TaskRef) (hg : g ∈ canonRefs now ex T) (hagree : findTask T' g.name = findTask T g.name) :
    refresh now' T' g = g := by
  unfold canonRefs at hg
  rcases List.mem_append.mp hg with h | h
  · obtain ⟨e, he, rfl⟩ := List.mem_map.mp h
    have hn := refresh_name now T hok e
    unfold refresh at hagree ⊢
    rw [hagree]
    unfold refresh at hn
    cases hf : findTask T e.name with
    | none =>
      simp only [hf] at hn ⊢
      rw [hn, hf]
      exact lostRef_idem now now' e
    | some t =>
      simp only [hf] at hn ⊢
      rw [hn, hf]
      exact getTaskRef_idem_some e t (hfin t (findTask_some hf).1)
  · obtain ⟨t, ht, rfl⟩ := List.mem_map.mp h
    have ht' := (List.mem_filter.mp ht).1
    have hn : (getTaskRef none t).name = t.name := by rw [getTaskRef_name, hok t ht']
    unfold refresh
    rw [hagree, hn, findTask_of_mem hT ht']
    exact getTaskRef_idem_none t (hfin t ht')

/-- **`GenerateTaskRefs` is idempotent**: generating again from the generated refs, against any task list
that agrees with the first one on the generated names and lists nothing else, changes nothing -/
theorem generateTaskRefs_idem (now now' : Time) (ex : List TaskRef) (T T' : List Task)
    (hex : (ex.map (·.name)).Nodup) (hT : (T.map (·.name)).Nodup) (hok : ∀ t ∈ T, TaskOK t)
    (hfin : ∀ t ∈ T, TaskFinal t) (hT' : (T'.map (·.name)).Nodup) (hok' : ∀ t ∈ T', TaskOK t)
    (hsub : ∀ t ∈ T', t.name ∈ (generateTaskRefs now ex T).map (·.name))
    (hagree : ∀ g ∈ generateTaskRefs now ex T, findTask T' g.name = findTask T g.name) :
    generateTaskRefs now' (generateTaskRefs now ex T) T' = generateTaskRefs now ex T := by
  have hgn := generateTaskRefs_names_nodup now ex T hex hT hok
  refine generateTaskRefs_fix now' _ T' hgn ?_ hT' hok' hsub ?_
  · rw [generateTaskRefs_canon now ex T hex hT hok]
    exact sortTaskRefs_sorted _
  · intro g hg
    have hg' : g ∈ canonRefs now ex T := (generateTaskRefs_perm_canon now ex T hex hT hok).mem_iff.mp hg
    exact refresh_generated now now' ex T T' hT hok hfin g hg' (hagree g hg)

theorem generateTaskRefs_idem_same (now now' : Time) (ex : List TaskRef) (T : List Task)
    (hex : (ex.map (·.name)).Nodup) (hT : (T.map (·.name)).Nodup) (hok : ∀ t ∈ T, TaskOK t)
    (hfin : ∀ t ∈ T, TaskFinal t) :
    generateTaskRefs now' (generateTaskRefs now ex T) T = generateTaskRefs now ex T := by
  refine generateTaskRefs_idem now now' ex T T hex hT hok hfin hT hok ?_ (fun _ _ => rfl)
  intro t ht
  have := (Furiko.Props.C11.generateTaskRefs_members now ex T).2.1 t ht
  exact List.mem_map.mpr ⟨_, this, by rw [getTaskRef_name, hok t ht]⟩

/-! ### idempotence across observation times (F30 repaired)

A pod that does not tell when it finished is recorded with the clock of the observing pass
(`Pod.recordedFinish`): two readings of one pod at different clocks agree, or both report a finish time
and differ only in it.  `GetTaskRef` keeps the FIRST recorded finish time of a finished task with a final
state (fix 6ab84c2), so the generated refs are a fixpoint against such a second reading too. -/

/-- `t'` is `t` read at another clock -/
def TaskSim (t t' : Task) : Prop :=
  t' = t ∨ (t.ref.finishTimestamp.isSome = true ∧
    ∃ f, t' = { t with ref := { t.ref with finishTimestamp := some f } })

def OptSim : Option Task → Option Task → Prop
  | none, none => True
  | some t, some t' => TaskSim t t'
  | _, _ => False

theorem OptSim.refl (o : Option Task) : OptSim o o := by
  cases o with
  | none => trivial
  | some t => exact Or.inl rfl

theorem OptSim.of_eq {a b : Option Task} (h : b = a) : OptSim a b := h ▸ OptSim.refl a

theorem TaskSim.name {t t' : Task} (h : TaskSim t t') : t'.name = t.name := by
  rcases h with rfl | ⟨_, f, rfl⟩ <;> rfl

theorem TaskSim.refName {t t' : Task} (h : TaskSim t t') : t'.ref.name = t.ref.name := by
  rcases h with rfl | ⟨_, f, rfl⟩ <;> rfl

theorem getTaskRef_idem_some_fin (e : TaskRef) (t : Task) (f' : Time)
    (hf : t.ref.finishTimestamp.isSome = true) (hfinal : isFinalTaskState t.ref.status.state = true) :
    getTaskRef (some (getTaskRef (some e) t)) { t with ref := { t.ref with finishTimestamp := some f' } } =
      getTaskRef (some e) t := by
  unfold getTaskRef
  cases hft : t.ref.finishTimestamp with
  | none => rw [hft] at hf; cases hf
  | some f =>
    cases hr : t.ref.runningTimestamp <;> cases hef : e.finishTimestamp <;> cases her : e.runningTimestamp <;>
      cases hes : isFinalTaskState e.status.state <;>
      simp [hft, hr, hef, her, hes, hfinal]

theorem getTaskRef_idem_none_fin (t : Task) (f' : Time)
    (hf : t.ref.finishTimestamp.isSome = true) (hfinal : isFinalTaskState t.ref.status.state = true) :
    getTaskRef (some (getTaskRef none t)) { t with ref := { t.ref with finishTimestamp := some f' } } =
      getTaskRef none t := by
  rcases t with ⟨tn, ⟨n, c, r, f, ri, pi, st, ds⟩, dts⟩
  unfold getTaskRef
  cases f with
  | none => cases hf
  | some f =>
    have hfinal' : isFinalTaskState st.state = true := hfinal
    cases r <;> simp [hfinal']

theorem getTaskRef_idem_some_sim (e : TaskRef) (t t' : Task) (hfin : TaskFinal t) (hs : TaskSim t t') :
    getTaskRef (some (getTaskRef (some e) t)) t' = getTaskRef (some e) t := by
  rcases hs with rfl | ⟨hf, f, rfl⟩
  · exact getTaskRef_idem_some e _ hfin
  · exact getTaskRef_idem_some_fin e t f hf (hfin hf)

theorem getTaskRef_idem_none_sim (t t' : Task) (hfin : TaskFinal t) (hs : TaskSim t t') :
    getTaskRef (some (getTaskRef none t)) t' = getTaskRef none t := by
  rcases hs with rfl | ⟨hf, f, rfl⟩
  · exact getTaskRef_idem_none _ hfin
  · exact getTaskRef_idem_none_fin t f hf (hfin hf)

/-- `refresh_generated` against a second reading of the tasks -/
theorem refresh_generated_sim (now now' : Time) (ex : List TaskRef) (T T' : List Task)
    (hT : (T.map (·.name)).Nodup) (hok : ∀ t ∈ T, TaskOK t) (hfin : ∀ t ∈ T, TaskFinal t)
    (g : TaskRef) (hg : g ∈ canonRefs now ex T) (hagree : OptSim (findTask T g.name) (findTask T' g.name)) :
    refresh now' T' g = g := by
  unfold canonRefs at hg
  rcases List.mem_append.mp hg with h | h
  · obtain ⟨e, he, rfl⟩ := List.mem_map.mp h
    have hn := refresh_name now T hok e
    rw [hn] at hagree
    unfold refresh at hn ⊢
    cases hf : findTask T e.name with
    | none =>
      simp only [hf] at hn ⊢
      rw [hn]
      rw [hf] at hagree
      cases hf' : findTask T' e.name with
      | none => exact lostRef_idem now now' e
      | some t' => rw [hf'] at hagree; exact absurd hagree (by simp [OptSim])
    | some t =>
      simp only [hf] at hn ⊢
      rw [hn]
      rw [hf] at hagree
      cases hf' : findTask T' e.name with
      | none => rw [hf'] at hagree; exact absurd hagree (by simp [OptSim])
      | some t' =>
        rw [hf'] at hagree
        exact getTaskRef_idem_some_sim e t t' (hfin t (findTask_some hf).1) hagree
  · obtain ⟨t, ht, rfl⟩ := List.mem_map.mp h
    have ht' := (List.mem_filter.mp ht).1
    have hn : (getTaskRef none t).name = t.name := by rw [getTaskRef_name, hok t ht']
    rw [hn, findTask_of_mem hT ht'] at hagree
    unfold refresh
    rw [hn]
    cases hf' : findTask T' t.name with
    | none => rw [hf'] at hagree; exact absurd hagree (by simp [OptSim])
    | some t' =>
      rw [hf'] at hagree
      exact getTaskRef_idem_none_sim t t' (hfin t ht') hagree

/-- **`GenerateTaskRefs` is idempotent across observation times**: generating again from the generated
refs, against a second reading of the same tasks (`OptSim`), changes nothing -/
theorem generateTaskRefs_idem_sim (now now' : Time) (ex : List TaskRef) (T T' : List Task)
    (hex : (ex.map (·.name)).Nodup) (hT : (T.map (·.name)).Nodup) (hok : ∀ t ∈ T, TaskOK t)
    (hfin : ∀ t ∈ T, TaskFinal t) (hT' : (T'.map (·.name)).Nodup) (hok' : ∀ t ∈ T', TaskOK t)
    (hsub : ∀ t ∈ T', t.name ∈ (generateTaskRefs now ex T).map (·.name))
    (hagree : ∀ g ∈ generateTaskRefs now ex T, OptSim (findTask T g.name) (findTask T' g.name)) :
    generateTaskRefs now' (generateTaskRefs now ex T) T' = generateTaskRefs now ex T := by
  have hgn := generateTaskRefs_names_nodup now ex T hex hT hok
  refine generateTaskRefs_fix now' _ T' hgn ?_ hT' hok' hsub ?_
  · rw [generateTaskRefs_canon now ex T hex hT hok]
    exact sortTaskRefs_sorted _
  · intro g hg
    have hg' : g ∈ canonRefs now ex T := (generateTaskRefs_perm_canon now ex T hex hT hok).mem_iff.mp hg
    exact refresh_generated_sim now now' ex T T' hT hok hfin g hg' (hagree g hg)

end Furiko.JobCtl.Live
