/-
Liveness of the job controller, kill part 5: `Reconciler.sync` and `SyncOne` on a Job whose kill timestamp
has passed (`sync_kill`, `syncOne_kill`): the pods of the unfinished listed tasks get the deletion
timestamp, and the recomputed status is written by one status update exactly when it differs from the
cached one; the finish time of the recomputed condition is bounded below by any lower bound of the finish
times and the kill timestamp (`recompute_fin_lb`).  Core Lean only.
-/
import FurikoModel.Proofs.JobCtlLiveK4
import FurikoModel.Proofs.JobCtlLive10

set_option linter.unusedSimpArgs false
set_option linter.unusedVariables false

namespace Furiko.JobCtl.Live
open Furiko Furiko.JobCtl Furiko.WQ Furiko.StatusLemmas Furiko.JobCtlPlan

/-- the condition recomputed for a Job whose kill timestamp has passed: `Finished` only as `Killed`, at the
latest recorded finish time or, when there is none, the kill timestamp -/
theorem recompute_fin_k (now : Time) (d : PIndex) (rj : Job) (T : List Task) (kt : Time) (h : KillSpec rj kt)
    (hk : kt ≤ now) (fin : CondFinished) (hfin : (recompute now d rj T).status.condition.finished = some fin) :
    fin.result = .killed ∧
    fin.finishTimestamp = (if (latestFinished (generateTaskRefs now rj.status.tasks T)).isSome
      then latestFinished (generateTaskRefs now rj.status.tasks T) else some kt) := by
  have hX : KillSpec (updateJobTaskRefs now rj T) kt := h.congr (updateJobTaskRefs_sameSpec now rj T) rfl
  obtain ⟨t, ht⟩ : ∃ t, (updateJobTaskRefs now rj T).template = some t := by
    cases hx : (updateJobTaskRefs now rj T).template with
    | none => have := hX.tmpl; rw [hx] at this; cases this
    | some t => exact ⟨t, rfl⟩
  have hcondEq : (recompute now d rj T).status.condition = getCondition now d (updateJobTaskRefs now rj T) := by
    unfold recompute
    rw [statusOf_live now d _ t ht hX.del]
  rw [hcondEq, getCondition_killed now d _ kt hX hk] at hfin
  split at hfin
  · simp only [Option.some.injEq] at hfin
    subst hfin
    refine ⟨rfl, ?_⟩
    show (if (latestFinished (updateJobTaskRefs now rj T).status.tasks).isSome = true then _ else _) = _
    rw [hX.kill]
    rfl
  · cases hfin

/-- the finish time of the recomputed condition is at least any lower bound of the recorded finish times, the
listed tasks' finish times, the kill timestamp and the clock -/
theorem recompute_fin_lb (F0 : Int) (now : Time) (d : PIndex) (rj : Job) (T : List Task) (kt : Time) (h : KillSpec rj kt)
    (hk : kt ≤ now) (hF : F0 ≤ kt)
    (hex : ∀ r ∈ rj.status.tasks, ∀ f, r.finishTimestamp = some f → F0 ≤ f)
    (hT : ∀ t ∈ T, ∀ f, t.ref.finishTimestamp = some f → F0 ≤ f)
    (fin : CondFinished) (hfin : (recompute now d rj T).status.condition.finished = some fin) :
    F0 ≤ fin.finishTimestamp.getD zeroTime := by
  obtain ⟨_, hft⟩ := recompute_fin_k now d rj T kt h hk fin hfin
  rw [hft]
  cases hl : latestFinished (generateTaskRefs now rj.status.tasks T) with
  | none => simp only [Option.isSome_none, Bool.false_eq_true, ↓reduceIte, Option.getD_some]; exact hF
  | some g =>
    simp only [Option.isSome_some, ↓reduceIte, Option.getD_some]
    obtain ⟨r, hr, hg⟩ := latestFinished_mem _ g hl
    exact gen_lb F0 now rj.status.tasks T hex hT (Int.le_trans hF hk) r hr g hg

theorem getTTL_sameSpec {a b : Job} (h : SameSpec a b) (cfg : ExecConfig) :
    getTTLAfterFinished b cfg = getTTLAfterFinished a cfg := by
  unfold getTTLAfterFinished; rw [h.ttl]

/-- **`Reconciler.sync` on a Job whose kill timestamp has passed**, no fault pending, no listed task being
deleted yet, the TTL not elapsed -/
theorem sync_kill (sp : Sys) (jo : JobObj) (kt : Time) (hspec : KillSpec jo.job kt) (hle : kt ≤ sp.clock)
    (hnf : NoFault sp) (hnd : (podNames sp.pods).Nodup)
    (hdts : ∀ t ∈ killTasks sp jo, t.deletionTimestamp = none)
    (httl : ∀ rj5, KillSpec rj5 kt → SameSpec jo.job rj5 →
      rj5.status.tasks.map (·.finishTimestamp) =
        (generateTaskRefs sp.clock jo.job.status.tasks (killTasks sp jo)).map (·.finishTimestamp) →
      ∀ fin, (recompute sp.clock sp.d rj5 (killTasks sp jo)).status.condition.finished = some fin →
      fin.finishTimestamp.getD zeroTime + getTTLAfterFinished jo.job sp.cfg > sp.clock)
    (hfn : TasksFn (killTasks sp jo)) :
    ∃ s' rj5 N, sync sp jo = (s', recompute sp.clock sp.d rj5 (killTasks sp jo), jo.finalizer, true, false) ∧
      MarkedT (jobKey jo) sp s' N ∧
      (∀ n, n ∈ N ↔ ∃ t ∈ killTasks sp jo, t.name = n ∧ isTaskFinished t = false) ∧
      KillSpec rj5 kt ∧ SameSpec jo.job rj5 ∧
      rj5.status.tasks.map (·.finishTimestamp) =
        (generateTaskRefs sp.clock jo.job.status.tasks (killTasks sp jo)).map (·.finishTimestamp) := by
  obtain ⟨s6, rj5, N, h6, hm6, hN, hk5, hs5, hfm⟩ := syncJobTasks_kill sp jo kt hspec hle hnf hnd hdts hfn
  have hF : KillSpec (recompute sp.clock sp.d rj5 (killTasks sp jo)) kt := hk5.recompute _ _ _
  have hsF : SameSpec jo.job (recompute sp.clock sp.d rj5 (killTasks sp jo)) :=
    hs5.trans (recompute_sameSpec sp.clock sp.d rj5 (killTasks sp jo)).1
  have hstage : syncTasksStage sp jo = (s6, some (recompute sp.clock sp.d rj5 (killTasks sp jo))) := by
    unfold syncTasksStage
    have h1 : isStarted jo.job = true := hspec.started
    have h2 : isDeleted jo.job = false := by unfold isDeleted; rw [hspec.del]; rfl
    simp only [h1, h2, Bool.not_false, Bool.and_self, ↓reduceIte]
    exact h6
  have hle6 : kt ≤ s6.clock := by rw [hm6.clock]; exact hle
  have hu2 : (syncJobStatusFromTaskRefs s6 (jobKey jo) (recompute sp.clock sp.d rj5 (killTasks sp jo))).2 =
      recompute sp.clock sp.d rj5 (killTasks sp jo) := by
    rw [syncJobStatus_snd', hm6.d]
    exact statusOf_idem_k sp.clock s6.clock sp.d (updateJobTaskRefs sp.clock rj5 (killTasks sp jo)) kt
      (hk5.congr (updateJobTaskRefs_sameSpec sp.clock rj5 (killTasks sp jo)) rfl) hle hle6
  have hu1 := syncJobStatus_fst s6 (jobKey jo) (recompute sp.clock sp.d rj5 (killTasks sp jo))
  generalize hU : syncJobStatusFromTaskRefs s6 (jobKey jo) (recompute sp.clock sp.d rj5 (killTasks sp jo)) = U at hu1 hu2
  obtain ⟨s7, rj7⟩ := U
  simp only at hu1 hu2
  subst hu2
  have hst7 := hu1.static
  have hT : ∃ s8, handleTTL s7 jo (recompute sp.clock sp.d rj5 (killTasks sp jo)) = (s8, true) ∧
      TimersOnly (jobKey jo) s7 s8 := by
    cases hfin : (recompute sp.clock sp.d rj5 (killTasks sp jo)).status.condition.finished with
    | none => exact ⟨s7, handleTTL_unfinished s7 jo _ hfin, TimersOnly.refl _ _⟩
    | some fin =>
      have he := httl rj5 hk5 hs5 hfm fin hfin
      have hc7 : s7.clock = sp.clock := hst7.1.trans hm6.clock
      have hcfg7 : s7.cfg = sp.cfg := hst7.2.2.1.trans hm6.cfg
      refine ⟨_, handleTTL_early s7 jo _ fin hF.del hfin (by rw [hc7, hcfg7, getTTL_sameSpec hsF]; exact he),
        enqueueAfter_timersOnly _ _ _⟩
  obtain ⟨s8, hT8, ht8⟩ := hT
  refine ⟨s8, rj5, N, ?_, ((hm6.trans (MarkedT.of_timers hu1)).trans (MarkedT.of_timers ht8)).congr (fun n => by simp),
    hN, hk5, hs5, hfm⟩
  rw [sync_eq]
  simp only [hstage, hU, hT8, handleFinalizer_live s8 jo _ jo.finalizer hF.del,
    finalizerStatusInput_live s8 jo _ jo.finalizer hF.del, statusHasNullTime_live s6 _ hF.del]

/-! ### the status update with no fault pending -/

/-- the state right after the status update of a pass succeeded (a pod-delete batch may have run before) -/
def afterStatusK (s : Sys) (jo : JobObj) (rjF : Job) : Sys :=
  { s with rv := s.rv + 1, job := some (written jo rjF (s.rv + 1)),
           jobEvs := s.jobEvs ++ [.upsert (written jo rjF (s.rv + 1))],
           calls := s.calls ++ [⟨"update", "jobs", jo.name, "ok", true, false⟩], delRun := none }

theorem apiUpdateJobStatus_nofault (s : Sys) (jo : JobObj) (newJob : Job) (h : NoFault s) (hj : s.job = some jo)
    (hne : newJob.status ≠ jo.job.status) :
    apiUpdateJobStatus s jo { jo with job := newJob } = (afterStatusK s jo newJob, true) := by
  unfold apiUpdateJobStatus nextFault popFault
  rw [h.1]
  have hno : ¬ ({ ({ jo with job := { jo.job with status := newJob.status }, rv := s.rv + 1 } : JobObj) with rv := jo.rv } = jo) := by
    intro e
    have := congrArg (fun j => j.job.status) e
    exact hne this
  simp only [isFailFault, hj, log, written, afterStatusK]
  simp [hno]

/-- `SyncOne` in kill mode -/
theorem syncOne_kill (sp : Sys) (jo : JobObj) (s' : Sys) (rjF : Job) (hc : sp.jobCache = some jo)
    (hsync : sync sp jo = (s', rjF, jo.finalizer, true, false)) (hadm : rjF.admissionError = jo.job.admissionError)
    (hnf : NoFault s') (hj : s'.job = some jo) :
    syncOne sp = (if rjF.status ≠ jo.job.status then afterStatusK s' jo rjF else s', true) := by
  rw [syncOne_simple sp jo s' rjF hc hsync hadm]
  by_cases hd : rjF.status = jo.job.status
  · simp [hd]
  · simp only [ne_eq, hd, not_false_eq_true, ↓reduceIte]
    rw [apiUpdateJobStatus_nofault s' jo rjF hnf hj hd]

end Furiko.JobCtl.Live
