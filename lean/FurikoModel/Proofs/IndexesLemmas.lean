import FurikoModel.Proofs.IndexesMatrix
import Std.Data.String.ToInt
/-!
Helper lemmas for C14: sorted keys and permutation invariance, the cartesian-product specification,
`withCount` loop, hash maps, task names, validators.
-/
namespace Furiko.Indexes

/-- a Go map has distinct keys -/
def KeysNodup (m : Matrix) : Prop := (m.map (·.1)).Nodup

/-! ### sorted keys, lookups, permutations -/

theorem getKeys_perm (m : Matrix) : (getKeys m).Perm (m.map (·.1)) := List.mergeSort_perm _ _

theorem getKeys_sorted (m : Matrix) : (getKeys m).Pairwise (· ≤ ·) := by
  have := List.pairwise_mergeSort (le := fun a b : String => decide (a ≤ b))
    (by intro a b c; simpa using String.le_trans) (by intro a b; simpa using String.le_total a b) (m.map (·.1))
  exact this.imp (by simp)

theorem getKeys_eq_of_perm {m1 m2 : Matrix} (h : m1.Perm m2) : getKeys m1 = getKeys m2 :=
  List.Perm.eq_of_pairwise (le := (· ≤ ·)) (fun _ _ _ _ => String.le_antisymm) (getKeys_sorted m1) (getKeys_sorted m2)
    ((getKeys_perm m1).trans ((h.map _).trans (getKeys_perm m2).symm))

theorem mem_getKeys {m : Matrix} {k : String} : k ∈ getKeys m ↔ ∃ kv ∈ m, kv.1 = k := by
  rw [(getKeys_perm m).mem_iff]; simp

theorem mem_of_lookup {m : Matrix} {k : String} {vs : List String} (h : m.lookup k = some vs) : (k, vs) ∈ m := by
  induction m with
  | nil => simp at h
  | cons kv rest ih =>
    obtain ⟨k', vs'⟩ := kv
    rw [List.lookup_cons] at h
    by_cases hk : k = k'
    · subst hk; simp at h; simp [h]
    · have : (k == k') = false := by simpa using hk
      rw [this] at h
      exact List.mem_cons_of_mem _ (ih h)

theorem lookup_of_mem {m : Matrix} (hn : KeysNodup m) {k : String} {vs : List String} (h : (k, vs) ∈ m) :
    m.lookup k = some vs := by
  induction m with
  | nil => simp at h
  | cons kv rest ih =>
    obtain ⟨k', vs'⟩ := kv
    simp only [KeysNodup, List.map_cons, List.nodup_cons] at hn
    rw [List.lookup_cons]
    rcases List.mem_cons.1 h with heq | hmem
    · cases heq; simp
    · have hk : k ≠ k' := by
        intro e; subst e
        exact hn.1 (List.mem_map.2 ⟨(k, vs), hmem, rfl⟩)
      have : (k == k') = false := by simpa using hk
      rw [this]
      exact ih hn.2 hmem

theorem values_of_mem {m : Matrix} (hn : KeysNodup m) {kv : String × List String} (h : kv ∈ m) :
    values m kv.1 = kv.2 := by
  simp [values, lookup_of_mem hn (k := kv.1) (vs := kv.2) h]

theorem lookup_eq_of_perm {m1 m2 : Matrix} (hn : KeysNodup m1) (h : m1.Perm m2) (k : String) :
    m1.lookup k = m2.lookup k := by
  have hn2 : KeysNodup m2 := (h.map _).nodup hn
  cases h1 : m1.lookup k with
  | some vs => exact (lookup_of_mem hn2 (h.subset (mem_of_lookup h1))).symm
  | none =>
    cases h2 : m2.lookup k with
    | none => rfl
    | some vs =>
      have := lookup_of_mem hn (h.symm.subset (mem_of_lookup h2))
      rw [h1] at this; cases this

theorem cols_eq_of_perm {m1 m2 : Matrix} (hn : KeysNodup m1) (h : m1.Perm m2) : cols m1 = cols m2 := by
  simp only [cols, getKeys_eq_of_perm h, values, lookup_eq_of_perm hn h]

theorem len_pos_of_keys {m : Matrix} (hn : KeysNodup m) (hpos : ∀ kv ∈ m, kv.2 ≠ []) :
    ∀ k ∈ getKeys m, 0 < len m k := by
  intro k hk
  obtain ⟨kv, hkv, rfl⟩ := mem_getKeys.1 hk
  rw [len, values_of_mem hn hkv]
  exact List.length_pos_iff.2 (hpos kv hkv)

theorem prod_lens_sorted {m : Matrix} (hn : KeysNodup m) :
    ((getKeys m).map (len m)).prod = (m.map (·.2.length)).prod := by
  have h1 : ((getKeys m).map (len m)).Perm ((m.map (·.1)).map (len m)) := (getKeys_perm m).map _
  rw [h1.prod_nat, List.map_map]
  congr 1
  apply List.map_congr_left
  intro kv hkv
  simp [len, values_of_mem hn hkv]

/-- `GenerateMatrixCombinations` on a non-empty map without empty value lists = the cartesian product
over the sorted keys, in lexicographic order -/
theorem generateMatrixCombinations_eq (m : Matrix) (hne : m ≠ []) (hn : KeysNodup m)
    (hpos : ∀ kv ∈ m, kv.2 ≠ []) : generateMatrixCombinations m = some (cartesian (cols m)) := by
  have hks : getKeys m ≠ [] := by
    intro e
    have := (getKeys_perm m).length_eq
    rw [e] at this
    cases m with
    | nil => exact hne rfl
    | cons _ _ => simp at this
  have hnum : numCombinations m = ((getKeys m).map (len m)).prod := by
    rw [prod_lens_sorted hn]
    exact numCombinations_pos m hne (fun kv h => List.length_pos_iff.2 (hpos kv h))
  simp only [generateMatrixCombinations, hnum, cols]
  exact odometer_full m (getKeys m) hks (len_pos_of_keys hn hpos)

/-! ### the cartesian product specification -/

theorem cartesian_length : ∀ (cs : List (String × List String)),
    (cartesian cs).length = (cs.map (·.2.length)).prod
  | [] => by simp [cartesian]
  | kv :: rest => by
    have ih := cartesian_length rest
    have : ∀ (vs : List String) (c : Nat), (vs.map (fun _ => c)).sum = vs.length * c := by
      intro vs c; induction vs with
      | nil => simp
      | cons _ _ ihv => simp [ihv, Nat.succ_mul, Nat.add_comm]
    simp [cartesian, List.length_flatMap, ih, this]

/-- `c` is a choice function: for every column, in order, the column's key with one of its values -/
def Picks : List (String × List String) → Combination → Prop
  | [], [] => True
  | kv :: rest, p :: c => p.1 = kv.1 ∧ p.2 ∈ kv.2 ∧ Picks rest c
  | _, _ => False

/-- a combination is in the product iff it is a choice function -/
theorem mem_cartesian : ∀ (cs : List (String × List String)) (c : Combination),
    c ∈ cartesian cs ↔ Picks cs c
  | [], [] => by simp [cartesian, Picks]
  | [], _ :: _ => by simp [cartesian, Picks]
  | kv :: rest, [] => by simp [cartesian, Picks]
  | kv :: rest, p :: c => by
    simp only [cartesian, List.mem_flatMap, List.mem_map, Picks]
    constructor
    · rintro ⟨v, hv, c', hc', e⟩
      obtain ⟨e1, e2⟩ := List.cons.inj e
      subst e1 e2
      exact ⟨rfl, hv, (mem_cartesian rest c').1 hc'⟩
    · rintro ⟨h1, h2, h3⟩
      obtain ⟨pk, pv⟩ := p
      simp only at h1 h2
      subst h1
      exact ⟨pv, h2, c, (mem_cartesian rest c).2 h3, rfl⟩

theorem cartesian_nodup : ∀ (cs : List (String × List String)), (∀ kv ∈ cs, kv.2.Nodup) →
    (cartesian cs).Nodup
  | [], _ => by simp [cartesian]
  | kv :: rest, h => by
    have ih := cartesian_nodup rest (fun kv hk => h kv (List.mem_cons_of_mem _ hk))
    have hv : kv.2.Nodup := h kv (List.mem_cons_self ..)
    simp only [cartesian, List.Nodup, List.pairwise_flatMap]
    refine ⟨fun v _ => ?_, ?_⟩
    · exact List.Pairwise.map _ (fun a b hab e => hab (List.cons.inj e).2) ih
    · refine hv.imp ?_
      intro v1 v2 hne x hx y hy e
      simp only [List.mem_map] at hx hy
      obtain ⟨_, _, rfl⟩ := hx
      obtain ⟨_, _, rfl⟩ := hy
      exact hne (Prod.mk.inj (List.cons.inj e).1).2

/-- position-lexicographic order on combinations relative to the columns: at the first column where they
differ, the value of the left one occurs strictly earlier in that column's value list -/
def LexBefore : List (String × List String) → Combination → Combination → Prop
  | kv :: rest, p :: c, q :: d =>
    (kv.2.idxOf p.2 < kv.2.idxOf q.2) ∨ (p = q ∧ LexBefore rest c d)
  | _, _, _ => False

theorem cartesian_sorted : ∀ (cs : List (String × List String)), (∀ kv ∈ cs, kv.2.Nodup) →
    (cartesian cs).Pairwise (LexBefore cs)
  | [], _ => by simp [cartesian]
  | kv :: rest, h => by
    have ih := cartesian_sorted rest (fun kv hk => h kv (List.mem_cons_of_mem _ hk))
    have hv : kv.2.Nodup := h kv (List.mem_cons_self ..)
    simp only [cartesian, List.pairwise_flatMap]
    refine ⟨fun v _ => ?_, ?_⟩
    · exact List.Pairwise.map _ (fun a b hab => Or.inr ⟨rfl, hab⟩) ih
    · have hlt : kv.2.Pairwise (fun a b => kv.2.idxOf a < kv.2.idxOf b) := by
        have gen : ∀ (pre l : List String), (pre ++ l).Nodup →
            l.Pairwise (fun a b => (pre ++ l).idxOf a < (pre ++ l).idxOf b) := by
          intro pre l
          induction l generalizing pre with
          | nil => intro _; exact .nil
          | cons a l ihl =>
            intro hnd
            refine .cons ?_ ?_
            · intro b hb
              have ha : a ∉ pre := fun hin => by
                have := List.nodup_append.1 hnd
                exact this.2.2 a hin a (List.mem_cons_self ..) rfl
              have hb' : b ∉ pre := fun hin => by
                have := List.nodup_append.1 hnd
                exact this.2.2 b hin b (List.mem_cons_of_mem _ hb) rfl
              have hab : a ≠ b := fun e => by
                subst e
                have := (List.nodup_append.1 hnd).2.1
                exact (List.nodup_cons.1 this).1 hb
              rw [List.idxOf_append, if_neg ha, List.idxOf_append, if_neg hb']
              have hbeq : (a == b) = false := by simpa using hab
              simp [List.idxOf_cons, hbeq]
            · have := ihl (pre ++ [a]) (by simpa using hnd)
              simpa using this
        simpa using gen [] kv.2 (by simpa using hv)
      refine hlt.imp ?_
      intro v1 v2 hlt' x hx y hy
      simp only [List.mem_map] at hx hy
      obtain ⟨_, _, rfl⟩ := hx
      obtain ⟨_, _, rfl⟩ := hy
      exact Or.inl hlt'

/-! ### withCount loop -/

def numIndex (j : Nat) : Index := { num := some (j : Int) }

theorem countLoop_eq (n : Int) (hn : 0 ≤ n) : ∀ (fuel i : Nat), i + fuel = n.toNat →
    countLoop n fuel i = (List.range' i fuel).map numIndex
  | 0, _, _ => by simp [countLoop]
  | fuel + 1, i, h => by
    have hlt : (i : Int) < n := by omega
    rw [countLoop, if_pos hlt, countLoop_eq n hn fuel (i + 1) (by omega), List.range'_succ]
    simp [numIndex]

theorem numIndex_injective : ∀ a b, numIndex a = numIndex b → a = b := by
  intro a b h
  simp only [numIndex, Index.mk.injEq, Option.some.injEq, Int.natCast_inj, and_true] at h
  exact h

/-! ### hash maps -/

theorem hashIndexesLoop_fst (hash : Index → String) : ∀ (ixs : List Index) (i : Nat) (acc : List (String × Nat)),
    (hashIndexesLoop hash ixs i acc).1 = ixs.map hash
  | [], _, _ => rfl
  | ix :: rest, i, acc => by simp [hashIndexesLoop, hashIndexesLoop_fst hash rest]

theorem hashIndexes_fst (hash : Index → String) (ixs : List Index) :
    (hashIndexes hash ixs).1 = ixs.map hash := hashIndexesLoop_fst hash ixs 0 []

theorem mapSet_lookup (acc : List (String × Nat)) (k : String) (v : Nat) (k' : String) :
    (mapSet acc k v).lookup k' = if k' = k then some v else acc.lookup k' := by
  induction acc with
  | nil =>
    by_cases hk : k' = k
    · subst hk; simp [mapSet]
    · have : (k' == k) = false := by simpa using hk
      simp [mapSet, List.lookup_cons, this, hk]
  | cons p rest ih =>
    obtain ⟨pk, pv⟩ := p
    by_cases hpk : pk = k
    · subst hpk
      by_cases hk : k' = pk
      · subst hk; simp [mapSet]
      · have : (k' == pk) = false := by simpa using hk
        simp [mapSet, List.lookup_cons, this, hk]
    · by_cases hk : k' = pk
      · subst hk
        have : ¬ k' = k := hpk
        simp [mapSet, hpk]
      · have hb : (k' == pk) = false := by simpa using hk
        simp [mapSet, hpk, List.lookup_cons, hb, ih]

/-- last position (counted from `i`) whose index hashes to `h` -/
def lastPos (hash : Index → String) (h : String) : List Index → Nat → Option Nat
  | [], _ => none
  | x :: xs, i =>
    match lastPos hash h xs (i + 1) with
    | some p => some p
    | none => if h = hash x then some i else none

theorem hashIndexesLoop_snd (hash : Index → String) (h : String) : ∀ (ixs : List Index) (i : Nat) (acc : List (String × Nat)),
    (hashIndexesLoop hash ixs i acc).2.lookup h =
      match lastPos hash h ixs i with
      | some p => some p
      | none => acc.lookup h
  | [], _, _ => by simp [hashIndexesLoop, lastPos]
  | x :: xs, i, acc => by
    simp only [hashIndexesLoop, lastPos]
    rw [hashIndexesLoop_snd hash h xs (i + 1)]
    cases lastPos hash h xs (i + 1) with
    | some p => rfl
    | none => simp only [mapSet_lookup]; split <;> rfl

theorem firstDupFrom_none : ∀ (hs seen : List String) (i : Nat),
    firstDupFrom hs seen i = none ↔ hs.Nodup ∧ ∀ h ∈ hs, h ∉ seen
  | [], _, _ => by simp [firstDupFrom]
  | h :: rest, seen, i => by
    rw [firstDupFrom]
    cases hidx : seen.idxOf? h with
    | some j =>
      have hmem : h ∈ seen := by
        have : (seen.idxOf? h).isSome := by simp [hidx]
        simpa using this
      simp only [reduceCtorEq, false_iff, not_and]
      intro _ hall
      exact hall h (List.mem_cons_self ..) hmem
    | none =>
      have hnot : h ∉ seen := by simpa using hidx
      rw [firstDupFrom_none rest (seen ++ [h]) (i + 1)]
      constructor
      · rintro ⟨hnd, hall⟩
        refine ⟨List.nodup_cons.2 ⟨fun hin => ?_, hnd⟩, ?_⟩
        · exact hall h hin (List.mem_append_right _ (List.mem_singleton.2 rfl))
        · intro a ha
          rcases List.mem_cons.1 ha with rfl | ha'
          · exact hnot
          · exact fun hs => hall a ha' (List.mem_append_left _ hs)
      · rintro ⟨hnd, hall⟩
        have hc := List.nodup_cons.1 hnd
        refine ⟨hc.2, fun a ha hin => ?_⟩
        rcases List.mem_append.1 hin with h1 | h1
        · exact hall a (List.mem_cons_of_mem _ ha) h1
        · have : a = h := List.mem_singleton.1 h1
          exact hc.1 (this ▸ ha)

theorem firstDup_none (hs : List String) : firstDup hs = none ↔ hs.Nodup := by
  simp [firstDup, firstDupFrom_none]

/-- distinct hashes of a list of indexes = the indexes are distinct and the hash is injective on them -/
theorem nodup_map_hash {hash : Index → String} {ixs : List Index} (h : (ixs.map hash).Nodup) :
    ixs.Nodup ∧ ∀ a ∈ ixs, ∀ b ∈ ixs, hash a = hash b → a = b := by
  induction ixs with
  | nil => simp
  | cons x xs ih =>
    simp only [List.map_cons, List.nodup_cons, List.mem_map, not_exists, not_and] at h
    obtain ⟨ihn, ihinj⟩ := ih h.2
    refine ⟨List.nodup_cons.2 ⟨fun hx => h.1 x hx rfl, ihn⟩, ?_⟩
    intro a ha b hb e
    rcases List.mem_cons.1 ha with rfl | ha' <;> rcases List.mem_cons.1 hb with rfl | hb'
    · rfl
    · exact absurd e.symm (h.1 b hb')
    · exact absurd e (h.1 a ha')
    · exact ihinj a ha' b hb' e

theorem nodup_map_of_inj {α β : Type} {hash : α → β} {ixs : List α} (hn : ixs.Nodup)
    (hinj : ∀ a ∈ ixs, ∀ b ∈ ixs, hash a = hash b → a = b) : (ixs.map hash).Nodup := by
  induction ixs with
  | nil => simp
  | cons x xs ih =>
    have hx := List.nodup_cons.1 hn
    simp only [List.map_cons, List.nodup_cons, List.mem_map, not_exists, not_and]
    refine ⟨fun y hy e => ?_, ih hx.2 (fun a ha b hb => hinj a (List.mem_cons_of_mem _ ha) b (List.mem_cons_of_mem _ hb))⟩
    have := hinj y (List.mem_cons_of_mem _ hy) x (List.mem_cons_self ..) e
    exact hx.1 (this ▸ hy)

/-! ### task names -/

theorem split_at_dash : ∀ (a b x y : List Char), '-' ∉ a → '-' ∉ b → a ++ '-' :: x = b ++ '-' :: y → a = b ∧ x = y
  | [], [], _, _, _, _, h => by simpa using h
  | [], c :: b, _, _, _, hb, h => by
    simp only [List.nil_append, List.cons_append, List.cons.injEq] at h
    exact absurd (h.1 ▸ List.mem_cons_self ..) hb
  | c :: a, [], _, _, ha, _, h => by
    simp only [List.nil_append, List.cons_append, List.cons.injEq] at h
    exact absurd (h.1 ▸ List.mem_cons_self ..) ha
  | c :: a, d :: b, x, y, ha, hb, h => by
    simp only [List.cons_append, List.cons.injEq] at h
    have := split_at_dash a b x y (fun hh => ha (List.mem_cons_of_mem _ hh)) (fun hh => hb (List.mem_cons_of_mem _ hh)) h.2
    exact ⟨by rw [h.1, this.1], this.2⟩

/-- `GenerateTaskName` is injective in (hash, retry) for a fixed job name, as long as hashes contain no `-` -/
theorem generateTaskName_inj (name h1 h2 : String) (r1 r2 : Int)
    (d1 : '-' ∉ h1.toList) (d2 : '-' ∉ h2.toList)
    (e : generateTaskName name h1 r1 = generateTaskName name h2 r2) : h1 = h2 ∧ r1 = r2 := by
  simp only [generateTaskName, String.append_assoc] at e
  have e1 := (String.append_right_inj name).1 e
  have e2 := (String.append_right_inj "-").1 e1
  have e3 : h1.toList ++ '-' :: (toString r1).toList = h2.toList ++ '-' :: (toString r2).toList := by
    have := congrArg String.toList e2
    simpa [String.toList_append] using this
  obtain ⟨hh, hr⟩ := split_at_dash _ _ _ _ d1 d2 e3
  refine ⟨String.toList_inj.1 hh, ?_⟩
  have : toString r1 = toString r2 := String.toList_inj.1 hr
  exact Int.repr_inj.1 this

/-! ### validators -/

theorem validateMatrix_nil {m : Matrix} (h : validateMatrix m = []) :
    ∀ kv ∈ m, matrixKeyOk kv.1 = true ∧ ∀ v ∈ kv.2, v ≠ "" := by
  intro kv hkv
  simp only [validateMatrix, List.flatMap_eq_nil_iff] at h
  have := h kv hkv
  by_cases hk : matrixKeyOk kv.1 = true
  · refine ⟨hk, ?_⟩
    simp only [hk, Bool.not_true, Bool.false_eq_true, if_false, List.filterMap_eq_nil_iff] at this
    intro v hv e
    have := this v hv
    simp [e] at this
  · simp [hk] at this

theorem validateMatrixFixed_nil {m : Matrix} (h : validateMatrixFixed m = []) :
    ∀ kv ∈ m, matrixKeyOk kv.1 = true ∧ kv.2 ≠ [] ∧ ∀ v ∈ kv.2, v ≠ "" := by
  intro kv hkv
  simp only [validateMatrixFixed, List.flatMap_eq_nil_iff] at h
  have := h kv hkv
  by_cases hk : matrixKeyOk kv.1 = true
  · simp only [hk, Bool.not_true, Bool.false_eq_true, if_false, List.append_eq_nil_iff,
      List.filterMap_eq_nil_iff] at this
    refine ⟨hk, ?_, ?_⟩
    · intro e; simp [e] at this
    · intro v hv e
      have := this.2 v hv
      simp [e] at this
  · simp [hk] at this

/-- what an empty error list of the shared validator body means -/
theorem validateSpecWith_nil {vm : Matrix → List VErr} {spec : Spec} (h : validateSpecWith vm spec = []) :
    (spec.strategy = "AllSuccessful" ∨ spec.strategy = "AnySuccessful") ∧
    ((∃ n, spec.withCount = some n ∧ 0 < n ∧ spec.withKeys = [] ∧ spec.withMatrix = []) ∨
     (spec.withCount = none ∧ spec.withKeys ≠ [] ∧ (∀ k ∈ spec.withKeys, k ≠ "") ∧ spec.withMatrix = []) ∨
     (spec.withCount = none ∧ spec.withKeys = [] ∧ spec.withMatrix ≠ [] ∧ vm spec.withMatrix = [])) := by
  obtain ⟨c, ks, mx, st⟩ := spec
  simp only [validateSpecWith, List.append_eq_nil_iff] at h
  obtain ⟨h4, hs⟩ := h
  have hst : st = "AllSuccessful" ∨ st = "AnySuccessful" := by
    simp only [validateStrategy] at hs
    split at hs
    · assumption
    · split at hs <;> simp at hs
  refine ⟨hst, ?_⟩
  cases c with
  | some n =>
    cases ks with
    | cons k ks' => cases mx <;> simp at h4
    | nil =>
      cases mx with
      | cons kv mx' => simp at h4
      | nil =>
        simp at h4
        exact Or.inl ⟨n, rfl, by omega, rfl, rfl⟩
  | none =>
    cases ks with
    | cons k ks' =>
      cases mx with
      | cons kv mx' => simp at h4
      | nil =>
        simp [List.filterMap_eq_nil_iff] at h4
        refine Or.inr (Or.inl ⟨rfl, by simp, ?_, rfl⟩)
        intro k' hk'
        rcases List.mem_cons.1 hk' with rfl | hk'
        · exact h4.1
        · exact h4.2 k' hk'
    | nil =>
      cases mx with
      | nil => simp at h4
      | cons kv mx' =>
        simp at h4
        exact Or.inr (Or.inr ⟨rfl, rfl, by simp, h4⟩)

end Furiko.Indexes
