/-
Liveness of the job controller, part 27: the assembled statements.
* `converges_from_canon` — from any state of the invariant with an unfinished Job (whatever prefix led
  there), at most `mu ≤ 3·maxAttempts + 3` fair rounds reach a final state, which further rounds leave
  as it is;
* `fresh_job_converges` — from the creation of a simple Job the final state is the one the oracle
  dictates, after at most `3·maxAttempts + 2` rounds.
Core Lean only.
-/
import FurikoModel.Proofs.JobCtlLive26

set_option linter.unusedSimpArgs false
set_option linter.unusedVariables false

namespace Furiko.JobCtl.Live
open Furiko Furiko.JobCtl Furiko.WQ Furiko.StatusLemmas Furiko.JobCtlPlan Furiko.Conv Furiko.ParallelLemmas

section
variable {ok : Sys → Action → Prop} {j0 : JobObj} {F0 : Int}

/-- a final state stays final under any number of further fair rounds, with the same Job, pods,
resourceVersion counter and clock -/
theorem done_forever (hok : ∀ s a, fairEnv s a → ok s a) (orc : String → Outcome) (jo : JobObj) :
    ∀ (n : Nat) (s : Sys), Canon ok j0 jo F0 s → Done jo s → s.clock < F0 + getTTLAfterFinished jo.job s.cfg →
      Canon ok j0 jo F0 (roundN orc n s) ∧ Done jo (roundN orc n s) ∧ (roundN orc n s).job = s.job ∧
      (roundN orc n s).pods = s.pods ∧ (roundN orc n s).rv = s.rv ∧ (roundN orc n s).clock = s.clock
  | 0, s, h, hd, _ => ⟨h, hd, rfl, rfl, rfl, rfl⟩
  | n + 1, s, h, hd, hT => by
    obtain ⟨h1, h2, h3, h4, h5, h6, h7, _⟩ := round_done hok orc h hd hT
    obtain ⟨i1, i2, i3, i4, i5, i6⟩ := done_forever hok orc jo n (round orc s) h1 h2 (by rw [h6, h7]; exact hT)
    exact ⟨i1, i2, i3.trans h3, i4.trans h4, i5.trans h5, i6.trans h6⟩

/-- **convergence from any state of the invariant** -/
theorem converges_from_canon (hok : ∀ s a, fairEnv s a → ok s a) (orc : String → Outcome) (jo : JobObj) (s : Sys)
    (h : Canon ok j0 jo F0 s) (hb : Busy jo s)
    (hT : ∀ k, k < mu jo s → (roundN orc (k + 1) s).clock < F0 + getTTLAfterFinished jo.job s.cfg) :
    ∃ k, 1 ≤ k ∧ k ≤ mu jo s ∧ mu jo s ≤ 3 * jo.job.maxAttempts.toNat + 3 ∧
      Steps ok j0 s (roundN orc k s) ∧
      ∃ jo', jo'.name = jo.name ∧ Canon ok j0 jo' F0 (roundN orc k s) ∧ Done jo' (roundN orc k s) ∧
        ∀ n, (roundN orc n (roundN orc k s)).job = (roundN orc k s).job ∧
          (roundN orc n (roundN orc k s)).pods = (roundN orc k s).pods ∧
          (roundN orc n (roundN orc k s)).rv = (roundN orc k s).rv ∧
          (roundN orc n (roundN orc k s)).clock = (roundN orc k s).clock := by
  obtain ⟨k, hk, hk1, jo', hn, hcan, hdone, _, httl⟩ := rounds_converge_with hok orc (fun _ _ => True)
    (fun _ _ _ _ _ _ _ _ _ _ _ _ => trivial) (mu jo s) jo s h hb trivial (Nat.le_refl _) hT
  refine ⟨k, hk1, hk, mu_le jo s, roundN_steps hok orc k s s (.refl s), jo', hn, hcan, hdone, ?_⟩
  intro n
  have hclk : (roundN orc k s).clock < F0 + getTTLAfterFinished jo'.job (roundN orc k s).cfg := by
    rw [httl]
    obtain ⟨k', rfl⟩ : ∃ k', k = k' + 1 := ⟨k - 1, by omega⟩
    exact hT k' (by omega)
  obtain ⟨_, _, i3, i4, i5, i6⟩ := done_forever hok orc jo' n _ hcan hdone hclk
  exact ⟨i3, i4, i5, i6⟩

/-- **a simple Job from its creation**: the oracle decides -/
theorem fresh_job_converges (hok : ∀ s a, fairEnv s a → ok s a) (orc : String → Outcome) (clock : Int)
    (cfg : ExecConfig) (d : PIndex) (j0 : JobObj) (hwf : WF j0) (hspec : SimpleSpec j0.job)
    (hn : 1 ≤ j0.job.maxAttempts) (hunf : j0.job.status.condition.finished = none) (hdash : '-' ∉ d.hash.toList)
    (F0 : Int) (hF0 : F0 ≤ secs (clock / 1000000000))
    (hT : ∀ k, k < 3 * j0.job.maxAttempts.toNat + 2 →
      (roundN orc (k + 1) (startState clock cfg d j0)).clock < F0 + getTTLAfterFinished j0.job cfg) :
    ∃ k, 1 ≤ k ∧ k ≤ 3 * j0.job.maxAttempts.toNat + 2 ∧
      Steps ok j0 (startState clock cfg d j0) (roundN orc k (startState clock cfg d j0)) ∧
      ∃ jo', jo'.name = j0.name ∧ Canon ok j0 jo' F0 (roundN orc k (startState clock cfg d j0)) ∧
        Done jo' (roundN orc k (startState clock cfg d j0)) ∧
        Truth orc jo' (roundN orc k (startState clock cfg d j0)) := by
  obtain ⟨hcan, hbusy⟩ := init_canon hok clock cfg d j0 hwf hspec hn hunf hdash F0 hF0
  have hmu : mu { j0 with rv := 1 } (startState clock cfg d j0) ≤ 3 * j0.job.maxAttempts.toNat + 2 := by
    unfold mu
    have : ({ j0 with rv := 1 } : JobObj).job.status.tasks = [] := hwf.noTasks
    rw [this]
    simp only [List.all_nil, ↓reduceIte, List.length_nil]
    show 3 * (j0.job.maxAttempts - 0).toNat + 2 - _ ≤ _
    split <;> omega
  obtain ⟨k, hk, hk1, jo', hn', hcan', hdone, htruth, _⟩ := rounds_converge_with hok orc (Truth orc)
    (fun jo jo' s h hb ht hn hcw hrs hpods hd hps => truth_preserved hok orc jo jo' s h hb ht hn hcw hrs hpods hd hps)
    (3 * j0.job.maxAttempts.toNat + 2) _ _ hcan hbusy (truth_start orc clock cfg d j0 hwf) hmu hT
  exact ⟨k, hk1, Nat.le_trans hk hmu, roundN_steps hok orc k _ _ (.refl _), jo', hn', hcan', hdone, htruth⟩

end

end Furiko.JobCtl.Live
