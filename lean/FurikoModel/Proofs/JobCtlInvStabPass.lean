/-
Third walk, part 3: `syncCreateTasks`, the handlers, `syncJobTasks`, `handleFinalizer`, `sync`.
Result: `sync_res`.  Core Lean only.
-/
import FurikoModel.Proofs.JobCtlInvStabSync

set_option linter.unusedSimpArgs false
set_option linter.unusedVariables false

namespace Furiko.JobCtl
open Furiko Furiko.WQ Furiko.StatusLemmas Furiko.ParallelLemmas

/-- what the stability invariants need to know about the Job value a pass computes -/
structure SyncRes (j0 : JobObj) (d : PIndex) (P : List PodObj) (N : List String) (a b : Job) : Prop where
  good : Good j0 d b
  rs : ∀ r ∈ b.status.tasks, RS r
  fin : ∀ r ∈ b.status.tasks, r.finishTimestamp.isSome = true → PodFinIn P r.name
  froz : Froz a.status.tasks b.status.tasks
  src : ∀ r ∈ b.status.tasks, r.finishTimestamp.isSome = true → r.name ∈ N
  adm : b.admissionError = a.admissionError

theorem G3.res {j0 : JobObj} {d : PIndex} {P : List PodObj} {N : List String} {T : List Task} {a b : Job} (h : G3 j0 d P N T a b) :
    SyncRes j0 d P N a b := ⟨h.good, h.ok.rs, h.ok.fin, h.froz, h.ok.src, h.adm⟩

theorem SyncRes.trans_g3 {j0 : JobObj} {d : PIndex} {P : List PodObj} {N : List String} {T : List Task} {a b c : Job}
    (h1 : SyncRes j0 d P N a b) (h2 : G3 j0 d P N T b c) : SyncRes j0 d P N a c :=
  ⟨h2.good, h2.ok.rs, h2.ok.fin, h1.froz.trans h2.froz, h2.ok.src, h2.adm.trans h1.adm⟩

/-- result of a step that may fail -/
def OutG3 (j0 : JobObj) (d : PIndex) (P : List PodObj) (N : List String) (T : List Task) (a : Job) (o : Option Job) : Prop :=
  ∀ b, o = some b → G3 j0 d P N T a b

theorem some_g3 {j0 : JobObj} {d : PIndex} {P : List PodObj} {N : List String} {T : List Task} {a : Job} (hg : Good j0 d a)
    (hok : RefsOK P N T a.status.tasks) : OutG3 j0 d P N T a (some a) := by
  intro b h; cases h; exact G3.refl hg hok

theorem ite_some_none_g3 {j0 : JobObj} {d : PIndex} {P : List PodObj} {N : List String} {T : List Task} {a b : Job} (ok : Bool)
    (h : G3 j0 d P N T a b) : OutG3 j0 d P N T a (if ok = true then some b else none) := by
  intro c hc
  cases ok with
  | true => simp only [↓reduceIte, Option.some.injEq] at hc; subst hc; exact h
  | false => simp at hc

/-! ### adoption of unrecorded tasks -/

/-- the pod cache holds no UNRECORDED task of the Job: no pod labelled with and controlled by the Job
that its status does not name (with a readable task) -/
def NoUnrec (s : Sys) (jo : JobObj) : Prop :=
  ∀ p ∈ s.podCache, p.jobLabel = some jo.uid → p.ownerUid = some jo.uid →
    (∀ r ∈ jo.job.status.tasks, r.name ≠ p.pod.name) → podTask s.clock p = none

/-- … then `adoptUnrecordedTasks` adds nothing -/
theorem adoptUnrecordedTasks_eq_of_noUnrec {s : Sys} {jo : JobObj} (h : NoUnrec s jo) (tasks : List Task) :
    adoptUnrecordedTasks s jo tasks = tasks := by
  unfold adoptUnrecordedTasks
  have : List.filterMap (podTask s.clock) ((sortPods s.podCache).filter (fun p =>
      p.jobLabel = some jo.uid && !(tasks.any (·.name = p.pod.name)) &&
      !(jo.job.status.tasks.any (·.name = p.pod.name)) && p.ownerUid = some jo.uid)) = [] := by
    rw [List.filterMap_eq_nil_iff]
    intro p hp
    obtain ⟨hm, hc⟩ := List.mem_filter.mp hp
    simp only [Bool.and_eq_true, decide_eq_true_eq, Bool.not_eq_true', List.any_eq_false] at hc
    exact h p ((sortPods_perm s.podCache).subset hm) hc.1.1.1 hc.2 (fun r hr => by simpa using hc.1.2 r hr)
  simp only [this, List.append_nil]

/-- the task list after `adoptUnrecordedTasks`, seen from the start of the pass: the adopted tasks
come from the pod cache and are not named like a recorded ref -/
theorem adoptUnrecordedTasks_refsOK {j0 : JobObj} {sp : Sys} (ctx : PassCtx j0 sp) (N : List String) (jo : JobObj)
    (hu : jo.uid = j0.uid) (T0 : List Task) (htg0 : TasksGood j0 sp.d T0) (hs0 : TasksSem sp.pods N T0)
    (hok0 : RefsOK sp.pods N T0 jo.job.status.tasks) (hNc : ∀ n ∈ podNames sp.podCache, n ∈ N) :
    TasksGood j0 sp.d (adoptUnrecordedTasks sp jo T0) ∧ TasksSem sp.pods N (adoptUnrecordedTasks sp jo T0) ∧
    RefsOK sp.pods N (adoptUnrecordedTasks sp jo T0) jo.job.status.tasks ∧
    ∀ n ∈ (adoptUnrecordedTasks sp jo T0).map (·.name), n ∈ T0.map (·.name) ∨ n ∈ podNames sp.podCache := by
  have hmem := Furiko.JobCtlPlan.mem_adoptUnrecordedTasks sp jo T0
  refine ⟨adoptUnrecordedTasks_good sp _ _ ctx.pods hu htg0, ⟨?_, ?_, ?_⟩, ?_, ?_⟩
  · intro t ht
    rcases (hmem t).mp ht with h | ⟨p, hp, hpt, _⟩
    · exact hs0.sem t h
    · exact (newTask_sem ctx (jo := jo) (P0 := []) (names := [t.name]) ⟨by simp, p, _, hpt, Or.inr ⟨hp, by rw [hu]; exact ctx.owned.cache p hp⟩⟩).1
  · intro t ht hf
    rcases (hmem t).mp ht with h | ⟨p, hp, hpt, _⟩
    · exact hs0.fin t h hf
    · exact (newTask_sem ctx (jo := jo) (P0 := []) (names := [t.name]) ⟨by simp, p, _, hpt, Or.inr ⟨hp, by rw [hu]; exact ctx.owned.cache p hp⟩⟩).2.1 hf
  · intro t ht hf
    rcases (hmem t).mp ht with h | ⟨p, hp, hpt, _⟩
    · exact hs0.src t h hf
    · exact hNc _ ((newTask_sem ctx (jo := jo) (P0 := []) (names := [t.name]) ⟨by simp, p, _, hpt, Or.inr ⟨hp, by rw [hu]; exact ctx.owned.cache p hp⟩⟩).2.2 hf)
  · refine hok0.mono (fun t ht => (hmem t).mpr (Or.inl ht)) ?_
    intro t ht
    rcases (hmem t).mp ht with h | ⟨p, hp, hpt, _, _, _, hnr⟩
    · exact Or.inl h
    · right
      intro hm
      obtain ⟨r, hr, hrn⟩ := List.mem_map.mp hm
      exact hnr r hr (hrn.trans (podTask_ok hpt).2)
  · intro n hn
    obtain ⟨t, ht, rfl⟩ := List.mem_map.mp hn
    rcases (hmem t).mp ht with h | ⟨p, hp, hpt, _⟩
    · exact Or.inl (List.mem_map_of_mem h)
    · right
      rw [(podTask_ok hpt).2]
      exact List.mem_map_of_mem hp

/-! ### creation -/

theorem syncCreateTasks_g3 {j0 : JobObj} (sp : Sys) (jo : JobObj) (ctx : PassCtx j0 sp) (hwf : WF2 j0 sp.d)
    (hjo : VerOK j0 jo) (hg : Good j0 sp.d jo.job) (hst : isStarted jo.job = true) (hdel : isDeleted jo.job = false)
    (hcan : canCreateTask jo.job = true) (tasks0 : List Task) (ht0 : TasksGood j0 sp.d tasks0)
    (hs0 : TasksSem sp.pods (refNames jo.job ++ podNames sp.podCache) tasks0) (hok0 : RefsOK sp.pods (refNames jo.job ++ podNames sp.podCache) tasks0 jo.job.status.tasks)
    (hsub : ∀ n ∈ tasks0.map (·.name), n ∈ refNames jo.job) :
    ∀ rj1 tasks1, (syncCreateTasks sp jo jo.job tasks0).2 = some (rj1, tasks1) →
      TasksGood j0 sp.d tasks1 ∧ TasksSem sp.pods (refNames jo.job ++ podNames sp.podCache) tasks1 ∧ G3 j0 sp.d sp.pods (refNames jo.job ++ podNames sp.podCache) tasks1 jo.job rj1 ∧
      ((getParallelTaskSummary sp.d jo.job (generateTaskRefs sp.clock jo.job.status.tasks tasks0)).complete = true →
        NoUnrec sp jo → tasks1 = tasks0) := by
  intro rj1 tasks1
  unfold syncCreateTasks
  simp only [hcan, Bool.not_true, Bool.false_eq_true, ↓reduceIte]
  split
  · intro h
    simp only [Option.some.injEq, Prod.mk.injEq] at h
    obtain ⟨rfl, rfl⟩ := h
    obtain ⟨ha1, ha2, ha3, _⟩ := adoptUnrecordedTasks_refsOK ctx (refNames jo.job ++ podNames sp.podCache) jo hjo.uid tasks0
      ht0 hs0 hok0 (fun n hn => List.mem_append_right _ hn)
    exact ⟨ha1, ha2, G3.refl hg ha3, fun _ hnu => adoptUnrecordedTasks_eq_of_noUnrec hnu tasks0⟩
  · rename_i hnc
    cases hreqs : computeMissingIndexesForCreation sp.d jo.job (jo.job.indexes sp.d) with
    | none => (try simp only); intro h; cases h
    | some reqs =>
      (try simp only)
      have hnames := reqs_names hwf hjo hg.refs hreqs
      have hreq : ∀ r ∈ reqs, CreateReq sp.d jo r.index r.retryIndex :=
        fun r hr => ⟨hst, hdel, hcan, reqs, r.earliest, hreqs, hr⟩
      have h1 := createLoop_good jo sp.d sp.podCache (podNames sp.pods) hjo reqs sp jo.job tasks0 none rfl rfl (fun _ h => h) ctx.pods hreq ht0
        hnames.1 (fun r hr hmem => hnames.2 r hr (hsub _ hmem))
      generalize createLoop jo reqs sp jo.job tasks0 none = res at h1 ⊢
      obtain ⟨s1, o⟩ := res
      cases o with
      | none => (try simp only); intro h; cases h
      | some v =>
        obtain ⟨rj', tasks', minE⟩ := v
        (try simp only)
        obtain ⟨hrj, ht', hnew, hpre⟩ := h1 rj' tasks' minE rfl
        have hrj := hrj.eq_of_owned (fun p hp => by rw [hjo.uid]; exact ctx.owned.cache p hp)
        subst hrj
        -- the new tasks stand for requests, whose names are not recorded
        have hnewname : ∀ t ∈ tasks', t ∈ tasks0 ∨ t.name ∉ (jo.job.status.tasks).map (·.name) := by
          intro t ht
          rcases hnew t ht with h | h
          · exact Or.inl h
          · right
            obtain ⟨r, hr, hrn⟩ := List.mem_map.mp h.1
            rw [← hrn]
            exact hnames.2 r hr
        have hs' : TasksSem sp.pods (refNames jo.job ++ podNames sp.podCache) tasks' := by
          refine ⟨?_, ?_, ?_⟩
          · intro t ht
            rcases hnew t ht with h | h
            · exact hs0.sem t h
            · exact (newTask_sem ctx h).1
          · intro t ht hf
            rcases hnew t ht with h | h
            · exact hs0.fin t h hf
            · exact (newTask_sem ctx h).2.1 hf
          · intro t ht hf
            rcases hnew t ht with h | h
            · exact hs0.src t h hf
            · exact List.mem_append_right _ ((newTask_sem ctx h).2.2 hf)
        have fin : ∀ s2, G3 j0 sp.d sp.pods (refNames jo.job ++ podNames sp.podCache) tasks' jo.job (updateTaskRefStatus s2 (jobKey jo) jo.job tasks').2 :=
          fun s2 => updateTaskRefStatus_g3 s2 (jobKey jo) jo.job hg (hok0.mono hpre hnewname) ht' hs'
        cases minE with
        | none =>
          (try simp only)
          intro h
          simp only [Option.some.injEq, Prod.mk.injEq] at h
          obtain ⟨rfl, rfl⟩ := h
          exact ⟨ht', hs', fin _, fun hc => absurd hc hnc⟩
        | some t =>
          (try simp only)
          intro h
          simp only [Option.some.injEq, Prod.mk.injEq] at h
          obtain ⟨rfl, rfl⟩ := h
          exact ⟨ht', hs', fin _, fun hc => absurd hc hnc⟩

/-! ### handlers -/

theorem foldl_needDelete (Q : Task → Prop) (f : Sys × List Task → Task → Sys × List Task)
    (hf : ∀ acc t, ∀ x ∈ (f acc t).2, x ∈ acc.2 ∨ (x = t ∧ Q t)) :
    ∀ (l : List Task) (acc : Sys × List Task), ∀ x ∈ (l.foldl f acc).2, x ∈ acc.2 ∨ (x ∈ l ∧ Q x) := by
  intro l
  induction l with
  | nil => intro acc x hx; exact Or.inl hx
  | cons t rest ih =>
    intro acc x hx
    rcases ih (f acc t) x hx with h | h
    · rcases hf acc t x h with h' | ⟨rfl, hq⟩
      · exact Or.inl h'
      · exact Or.inr ⟨List.mem_cons_self, hq⟩
    · exact Or.inr ⟨List.mem_cons_of_mem _ h.1, h.2⟩

theorem handlePendingTasks_g3 {j0 : JobObj} {d : PIndex} {P : List PodObj} {N : List String} (s : Sys) (jo : JobObj) (rj : Job)
    (tasks : List Task) (hg : Good j0 d rj) (hok : RefsOK P N tasks rj.status.tasks) :
    OutG3 j0 d P N tasks rj (handlePendingTasks s jo rj tasks).2 := by
  unfold handlePendingTasks
  cases getPendingTimeout rj s.cfg with
  | none => exact some_g3 hg hok
  | some pt =>
    (try simp only)
    split
    · exact some_g3 hg hok
    · generalize hr : List.foldl _ (s, ([] : List Task)) tasks = r
      have hinv : ∀ x ∈ r.2, x ∈ tasks ∧ (pendRef rj x).finishTimestamp.isSome = false := by
        intro x hx
        rw [← hr] at hx
        refine Or.resolve_left (foldl_needDelete (fun t => (pendRef rj t).finishTimestamp.isSome = false) _ ?_ tasks (s, []) x hx)
          (by intro h; cases h)
        intro acc t y hy
        (try simp only at hy)
        split at hy
        · exact Or.inl hy
        · rename_i hnf
          split at hy
          · exact Or.inl hy
          · split at hy
            · exact Or.inl hy
            · split at hy
              · exact Or.inl hy
              · rcases List.mem_append.mp hy with hy | hy
                · exact Or.inl hy
                · simp only [List.mem_singleton] at hy
                  exact Or.inr ⟨hy, by simpa using hnf⟩
      clear hr
      obtain ⟨s1, needDelete⟩ := r
      (try simp only at hinv ⊢)
      split
      · exact some_g3 hg hok
      · generalize deleteTasks s1 needDelete false = r2
        obtain ⟨s2, ok⟩ := r2
        (try simp only)
        refine ite_some_none_g3 ok (markKilled_g3_refs rj _ "PendingTimeout" hg hok ?_)
        intro r0 hr0 hn
        rw [List.contains_iff_mem] at hn
        obtain ⟨t, ht, htn⟩ := List.mem_map.mp hn
        -- the refs' names are pairwise distinct: the recorded ref the step judged `t` by is `r0`
        have hfind : findTaskRef rj t.name = some r0 := by
          unfold findTaskRef
          have := find_of_nodup_names rj.status.tasks hg.nodup r0 hr0
          have htn' : t.name = r0.name := htn
          rw [htn']; exact this
        have := (hinv t ht).2
        unfold pendRef at this
        rw [hfind] at this
        exact this

theorem handleKillJob_g3 {j0 : JobObj} {d : PIndex} {P : List PodObj} {N : List String} (s : Sys) (jo : JobObj) (rj : Job) (tasks : List Task)
    (hg : Good j0 d rj) (hok : RefsOK P N tasks rj.status.tasks) :
    OutG3 j0 d P N tasks rj (handleKillJob s jo rj tasks).2 := by
  unfold handleKillJob
  split
  · split <;> exact some_g3 hg hok
  · (try simp only)
    split
    · exact some_g3 hg hok
    · generalize deleteTasks s (tasks.filter (fun t => !isTaskFinished t && t.deletionTimestamp.isNone)) false = r2
      obtain ⟨s2, ok⟩ := r2
      (try simp only)
      refine ite_some_none_g3 ok (markKilled_g3 rj _ "" hg hok ?_)
      intro n hn
      rw [List.contains_iff_mem] at hn
      obtain ⟨t, ht, rfl⟩ := List.mem_map.mp hn
      have := List.mem_filter.mp ht
      refine ⟨t, this.1, rfl, ?_⟩
      have h2 := this.2
      simp only [Bool.and_eq_true, Bool.not_eq_true'] at h2
      unfold isTaskFinished at h2
      exact h2.1

theorem handleForceDelete_g3 {j0 : JobObj} {d : PIndex} {P : List PodObj} {N : List String} (s : Sys) (jo : JobObj) (rj : Job)
    (tasks : List Task) (hg : Good j0 d rj) (hok : RefsOK P N tasks rj.status.tasks) (ht : TasksGood j0 d tasks)
    (hs : TasksSem P N tasks) : OutG3 j0 d P N tasks rj (handleForceDelete s jo rj tasks).2 := by
  unfold handleForceDelete
  (try simp only)
  split
  · exact some_g3 hg hok
  · split
    · exact some_g3 hg hok
    · generalize List.foldl _ (s, ([] : List Task)) tasks = r
      obtain ⟨s1, needDelete⟩ := r
      (try simp only)
      split
      · exact some_g3 hg hok
      · generalize deleteTasks s1 needDelete true = r2
        obtain ⟨s2, ok⟩ := r2
        (try simp only)
        refine ite_some_none_g3 ok ?_
        have h1 := markForce_g3 rj (needDelete.map (·.name)) hg hok
        exact h1.trans (updateJobTaskRefs_g3 s1.clock _ h1.good h1.ok ht hs)

/-! ### `syncJobTasks` -/

/-- the tasks of the pass, the Job it computes, and (when the refreshed refs are complete and the pod
cache holds no unrecorded task of the Job — since the repair of F23 those are adopted then) the fact
that no task was added -/
theorem syncJobTasks_g3 {j0 : JobObj} (sp : Sys) (jo : JobObj) (ctx : PassCtx j0 sp) (hwf : WF2 j0 sp.d)
    (hjo : VerOK j0 jo) (hg : Good j0 sp.d jo.job) (hrs : ∀ r ∈ jo.job.status.tasks, RS r)
    (hfin : ∀ r ∈ jo.job.status.tasks, r.finishTimestamp.isSome = true → PodFinIn sp.pods r.name)
    (hst : isStarted jo.job = true) (hdel : isDeleted jo.job = false) (hcan : canCreateTask jo.job = true) :
    ∀ b, (syncJobTasks sp jo jo.job).2 = some b →
      ∃ T, G3 j0 sp.d sp.pods (refNames jo.job ++ podNames sp.podCache) T jo.job b ∧
        ((getParallelTaskSummary sp.d jo.job (generateTaskRefs sp.clock jo.job.status.tasks
            (tasksForRefs sp jo jo.job.status.tasks))).complete = true → NoUnrec sp jo →
          ∀ n ∈ T.map (·.name), n ∈ refNames jo.job) := by
  intro b
  unfold syncJobTasks
  (try simp only)
  have htf := tasksForRefs_good (jo := jo) ctx.pods hjo.uid jo.job.status.tasks hg.nodup
  have hsem := tasksForRefs_refsOK (jo := jo) ctx hjo.uid (refNames jo.job ++ podNames sp.podCache) jo.job.status.tasks hg.nodup hrs hfin
    (fun r hr => List.mem_append_left _ (List.mem_map_of_mem hr))
  have h1 := syncCreateTasks_g3 sp jo ctx hwf hjo hg hst hdel hcan (tasksForRefs sp jo jo.job.status.tasks) htf.1
    hsem.1 hsem.2 htf.2
  generalize syncCreateTasks sp jo jo.job (tasksForRefs sp jo jo.job.status.tasks) = r1 at h1 ⊢
  obtain ⟨s1, o1⟩ := r1
  cases o1 with
  | none => (try simp only); intro h; cases h
  | some v =>
    obtain ⟨rj1, tasks1⟩ := v
    obtain ⟨ht1, hs1, hg1, hcomp⟩ := h1 rj1 tasks1 rfl
    (try simp only)
    have h2 := updateTaskRefStatus_g3 s1 (jobKey jo) rj1 hg1.good hg1.ok ht1 hs1
    generalize updateTaskRefStatus s1 (jobKey jo) rj1 tasks1 = r2 at h2 ⊢
    obtain ⟨s2, rj2⟩ := r2
    (try simp only)
    have g2 := hg1.trans h2
    have h3 := handlePendingTasks_g3 s2 jo rj2 tasks1 g2.good g2.ok
    generalize handlePendingTasks s2 jo rj2 tasks1 = r3 at h3 ⊢
    obtain ⟨s3, o3⟩ := r3
    cases o3 with
    | none => (try simp only); intro h; cases h
    | some rj3 =>
      (try simp only)
      have g3 := g2.trans (h3 rj3 rfl)
      have h4 := handleKillJob_g3 s3 jo rj3 tasks1 g3.good g3.ok
      generalize handleKillJob s3 jo rj3 tasks1 = r4 at h4 ⊢
      obtain ⟨s4, o4⟩ := r4
      cases o4 with
      | none => (try simp only); intro h; cases h
      | some rj4 =>
        (try simp only)
        have g4 := g3.trans (h4 rj4 rfl)
        have h5 := handleForceDelete_g3 s4 jo rj4 tasks1 g4.good g4.ok ht1 hs1
        generalize handleForceDelete s4 jo rj4 tasks1 = r5 at h5 ⊢
        obtain ⟨s5, o5⟩ := r5
        cases o5 with
        | none => (try simp only); intro h; cases h
        | some rj5 =>
          (try simp only)
          have g5 := g4.trans (h5 rj5 rfl)
          have h6 := updateTaskRefStatus_g3 s5 (jobKey jo) rj5 g5.good g5.ok ht1 hs1
          generalize updateTaskRefStatus s5 (jobKey jo) rj5 tasks1 = r6 at h6 ⊢
          obtain ⟨s6, rj6⟩ := r6
          (try simp only)
          intro h
          simp only [Option.some.injEq] at h
          subst h
          refine ⟨tasks1, g5.trans h6, ?_⟩
          intro hc hnu n hn
          rw [hcomp hc hnu] at hn
          exact htf.2 n hn

/-! ### `handleFinalizer`, `sync` -/

theorem SyncRes.refl {j0 : JobObj} {d : PIndex} {P : List PodObj} {N : List String} {a : Job} (hg : Good j0 d a)
    (hrs : ∀ r ∈ a.status.tasks, RS r)
    (hfin : ∀ r ∈ a.status.tasks, r.finishTimestamp.isSome = true → PodFinIn P r.name)
    (hN : ∀ r ∈ a.status.tasks, r.name ∈ N) : SyncRes j0 d P N a a :=
  ⟨hg, hrs, hfin, Froz.refl _, fun r hr _ => hN r hr, rfl⟩

theorem SyncRes.of_tasks {j0 : JobObj} {d : PIndex} {P : List PodObj} {N : List String} {a b c : Job}
    (h : SyncRes j0 d P N a b) (e : c.status.tasks = b.status.tasks)
    (ec : c.status.createdTasks = b.status.createdTasks) (ea : c.admissionError = b.admissionError) :
    SyncRes j0 d P N a c :=
  ⟨(GK.of_tasks h.good e ec).1, by rw [e]; exact h.rs, by rw [e]; exact h.fin, by rw [e]; exact h.froz,
   by rw [e]; exact h.src, ea.trans h.adm⟩

theorem SyncRes.trans {j0 : JobObj} {d : PIndex} {P : List PodObj} {N : List String} {a b c : Job}
    (h1 : SyncRes j0 d P N a b) (h2 : SyncRes j0 d P N b c) : SyncRes j0 d P N a c :=
  ⟨h2.good, h2.rs, h2.fin, h1.froz.trans h2.froz, h2.src, h2.adm.trans h1.adm⟩

theorem syncJobStatusFromTaskRefs_res {j0 : JobObj} {d : PIndex} {P : List PodObj} {N : List String} (s : Sys)
    (key : String) (a b : Job) (h : SyncRes j0 d P N a b) :
    SyncRes j0 d P N a (syncJobStatusFromTaskRefs s key b).2 ∧
    (syncJobStatusFromTaskRefs s key b).2.status.tasks = b.status.tasks := by
  unfold syncJobStatusFromTaskRefs
  cases hu : updateJobStatusFromTaskRefs s.clock s.d b with
  | none => exact ⟨h, rfl⟩
  | some newRj =>
    have := updateJobStatusFromTaskRefs_tasks hu
    have hadm : newRj.admissionError = b.admissionError := by
      unfold updateJobStatusFromTaskRefs updateJobStatusFromTaskRefsWith at hu
      cases ht : b.template with
      | none => simp [ht] at hu
      | some t => simp only [ht, Option.some.injEq] at hu; subst hu; rfl
    have hres := h.of_tasks this.1 this.2 hadm
    simp only
    split
    · split
      · split <;> exact ⟨hres, this.1⟩
      · exact ⟨hres, this.1⟩
    · exact ⟨hres, this.1⟩

/-- the tasks the finalizer deletes and waits for, seen from the start of the pass: the listed tasks
that are found, and (repair of F-C20-1) the unrecorded tasks of the pod cache, whose names are not
recorded -/
theorem finalizerTasks_refsOK {j0 : JobObj} {sp : Sys} (ctx : PassCtx j0 sp) (N : List String) (jo : JobObj)
    (hu : jo.uid = j0.uid) (rj : Job) (hg : Good j0 sp.d rj) (hrs : ∀ r ∈ rj.status.tasks, RS r)
    (hfin : ∀ r ∈ rj.status.tasks, r.finishTimestamp.isSome = true → PodFinIn sp.pods r.name)
    (hN : ∀ r ∈ rj.status.tasks, r.name ∈ N) (hNc : ∀ n ∈ podNames sp.podCache, n ∈ N) :
    TasksGood j0 sp.d (finalizerTasks sp jo rj) ∧ TasksSem sp.pods N (finalizerTasks sp jo rj) ∧
    RefsOK sp.pods N (finalizerTasks sp jo rj) rj.status.tasks ∧
    ∀ n ∈ (finalizerTasks sp jo rj).map (·.name), n ∈ refNames rj ∨ n ∈ podNames sp.podCache := by
  have htg0 := tasksForRefsConfirmed_good (jo := jo) ctx.pods hu rj.status.tasks hg.nodup
  have hsem0 := tasksForRefsConfirmed_refsOK (jo := jo) ctx hu N rj.status.tasks hg.nodup hrs hfin hN
  have hmem : ∀ t, t ∈ finalizerTasks sp jo rj ↔ t ∈ tasksForRefsConfirmed sp jo rj.status.tasks ∨
      ∃ p ∈ sp.podCache, podTask sp.clock p = some t ∧ p.jobLabel = some jo.uid ∧ p.ownerUid = some jo.uid ∧
        (∀ t' ∈ tasksForRefsConfirmed sp jo rj.status.tasks, t'.name ≠ p.pod.name) ∧
        (∀ r ∈ rj.status.tasks, r.name ≠ p.pod.name) := Furiko.JobCtlPlan.mem_finalizerTasks sp jo rj
  have hT0n : ∀ t ∈ tasksForRefsConfirmed sp jo rj.status.tasks, t.name ∈ refNames rj := by
    intro t ht
    unfold tasksForRefsConfirmed at ht
    obtain ⟨r, hr, hg'⟩ := List.mem_filterMap.mp ht
    rw [(getTaskForRefConfirmed_ok hg').2]
    exact List.mem_map_of_mem hr
  refine ⟨?_, ⟨?_, ?_, ?_⟩, ?_, ?_⟩
  · unfold finalizerTasks
    exact adoptUnrecordedTasks_good sp _ _ ctx.pods hu htg0
  · intro t ht
    rcases (hmem t).mp ht with h | ⟨p, hp, hpt, _⟩
    · exact hsem0.1.sem t h
    · exact (newTask_sem ctx (jo := jo) (P0 := []) (names := [t.name]) ⟨by simp, p, _, hpt, Or.inr ⟨hp, by rw [hu]; exact ctx.owned.cache p hp⟩⟩).1
  · intro t ht hf
    rcases (hmem t).mp ht with h | ⟨p, hp, hpt, _⟩
    · exact hsem0.1.fin t h hf
    · exact (newTask_sem ctx (jo := jo) (P0 := []) (names := [t.name]) ⟨by simp, p, _, hpt, Or.inr ⟨hp, by rw [hu]; exact ctx.owned.cache p hp⟩⟩).2.1 hf
  · intro t ht hf
    rcases (hmem t).mp ht with h | ⟨p, hp, hpt, _⟩
    · exact hsem0.1.src t h hf
    · exact hNc _ ((newTask_sem ctx (jo := jo) (P0 := []) (names := [t.name]) ⟨by simp, p, _, hpt, Or.inr ⟨hp, by rw [hu]; exact ctx.owned.cache p hp⟩⟩).2.2 hf)
  · refine hsem0.2.mono (fun t ht => (hmem t).mpr (Or.inl ht)) ?_
    intro t ht
    rcases (hmem t).mp ht with h | ⟨p, hp, hpt, _, _, _, hnr⟩
    · exact Or.inl h
    · right
      intro hm
      obtain ⟨r, hr, hrn⟩ := List.mem_map.mp hm
      exact hnr r hr (hrn.trans (podTask_ok hpt).2)
  · intro n hn
    obtain ⟨t, ht, rfl⟩ := List.mem_map.mp hn
    rcases (hmem t).mp ht with h | ⟨p, hp, hpt, _⟩
    · exact Or.inl (hT0n t h)
    · right
      rw [(podTask_ok hpt).2]
      exact List.mem_map_of_mem hp

theorem handleFinalizer_res {j0 : JobObj} (sp s : Sys) (jo : JobObj) (rj : Job) (fz : Bool) (N : List String)
    (ctx : PassCtx j0 sp) (hu : jo.uid = j0.uid)
    (hfr : rj.deletionTimestamp.isSome = true → Frame sp s) (hg : Good j0 sp.d rj)
    (hrs : ∀ r ∈ rj.status.tasks, RS r)
    (hfin : ∀ r ∈ rj.status.tasks, r.finishTimestamp.isSome = true → PodFinIn sp.pods r.name)
    (hN : ∀ r ∈ rj.status.tasks, r.name ∈ N) (hNc : ∀ n ∈ podNames sp.podCache, n ∈ N) :
    ∀ rj1 fz1, (handleFinalizer s jo rj fz).2 = some (rj1, fz1) →
      SyncRes j0 sp.d sp.pods N rj rj1 ∧
      (∀ n ∈ refNames rj1, n ∈ refNames rj ∨ n ∈ podNames sp.podCache) ∧
      (rj.deletionTimestamp = none → rj1 = rj) := by
  intro rj1 fz1
  unfold handleFinalizer
  split
  · intro h; cases h; exact ⟨SyncRes.refl hg hrs hfin hN, fun n hn => Or.inl hn, fun _ => rfl⟩
  · rename_i hdn
    have hds : rj.deletionTimestamp.isSome = true := by cases hx : rj.deletionTimestamp <;> simp_all
    have hnn : rj.deletionTimestamp = none → rj1 = rj := fun h => by rw [h] at hds; cases hds
    have hf := hfr hds
    split
    · intro h; cases h; exact ⟨SyncRes.refl hg hrs hfin hN, fun n hn => Or.inl hn, fun _ => rfl⟩
    · (try simp only)
      have hT : finalizerTasks s jo rj = finalizerTasks sp jo rj := finalizerTasks_frame hf jo rj
      rw [hT]
      obtain ⟨htg, hsem1, hsem2, hTn⟩ := finalizerTasks_refsOK ctx N jo hu rj hg hrs hfin hN hNc
      have names_of : ∀ {b : Job}, G3 j0 sp.d sp.pods N (finalizerTasks sp jo rj) rj b →
          ∀ n ∈ refNames b, n ∈ refNames rj ∨ n ∈ podNames sp.podCache := by
        intro b hb n hn
        rcases hb.names n hn with h | h
        · exact Or.inl h
        · exact hTn n h
      split
      · have hk := foldl_deletedStatus_g3 (j0 := j0) (d := sp.d) (P := sp.pods) (N := N)
          (T := finalizerTasks sp jo rj) (finalizerTasks sp jo rj) rj hg hsem2
        have h1 := updateTaskRefStatus_g3 s (jobKey jo) _ hk.good hk.ok htg hsem1
        generalize updateTaskRefStatus s (jobKey jo) _ (finalizerTasks sp jo rj) = r1 at h1 ⊢
        obtain ⟨s1, rj2⟩ := r1
        (try simp only)
        generalize deleteTasks s1 (finalizerTasks sp jo rj) false = r2
        obtain ⟨s2, ok⟩ := r2
        (try simp only)
        intro h
        cases ok with
        | false => simp at h
        | true =>
          simp only [↓reduceIte, Option.some.injEq, Prod.mk.injEq] at h
          obtain ⟨rfl, _⟩ := h
          exact ⟨(hk.trans h1).res, names_of (hk.trans h1), hnn⟩
      · rename_i hemp
        have hnil : finalizerTasks sp jo rj = [] := by
          cases hx : finalizerTasks sp jo rj <;> simp_all
        rw [hnil] at hsem1 hsem2 htg names_of
        have h1 := updateTaskRefStatus_g3 s (jobKey jo) rj hg hsem2 htg hsem1
        generalize updateTaskRefStatus s (jobKey jo) rj [] = r1 at h1 ⊢
        obtain ⟨s1, rj1'⟩ := r1
        (try simp only)
        intro h
        simp only [Option.some.injEq, Prod.mk.injEq] at h
        obtain ⟨rfl, _⟩ := h
        exact ⟨h1.res, names_of h1, hnn⟩

theorem coh_of_deleted {d : PIndex} {j : Job} (h : j.deletionTimestamp.isSome = true) : Coh d j := by
  intro hn; rw [hn] at h; cases h

theorem handleTTL_deleted (s : Sys) (jo : JobObj) (rj : Job) (h : isDeleted rj = true) :
    handleTTL s jo rj = (s, true) := by
  unfold handleTTL; simp [h]

/-- the names a finished ref of the computed Job can have: recorded before the pass, or in the pod cache -/
def passNames (sp : Sys) (jo : JobObj) : List String := refNames jo.job ++ podNames sp.podCache

/-- The Job value a pass computes, relative to the cached Job it started from and the server's pods at
the start: every ref satisfies `RS`; a ref is finished only if its pod is finished or gone, and only
under an old name; finished refs are frozen; the admission-error annotation is untouched; and when the
refreshed refs are complete and the pod cache holds no unrecorded task of the Job (`NoUnrec`: since
the repair of F23 a complete summary adopts them), or the Job is not started / is being deleted, every name is recorded
before the pass or — only for a Job that is being deleted, whose finalizer adopts the unrecorded
tasks of the pod cache — in the pod cache: for a Job that is not being deleted no name is added. -/
theorem sync_res {j0 : JobObj} (sp : Sys) (jo : JobObj) (ctx : PassCtx j0 sp) (hwf : WF2 j0 sp.d)
    (hjo : VerOK j0 jo) (hg : Good j0 sp.d jo.job) (hrs : ∀ r ∈ jo.job.status.tasks, RS r)
    (hfin : ∀ r ∈ jo.job.status.tasks, r.finishTimestamp.isSome = true → PodFinIn sp.pods r.name)
    (hcan : canCreateTask jo.job = true) (hcoh : Coh sp.d jo.job) (hadm : jo.job.admissionError = false)
    (htm : jo.job.template.isSome = true) :
    SyncRes j0 sp.d sp.pods (passNames sp jo) jo.job (sync sp jo).2.1 ∧
    (((getParallelTaskSummary sp.d jo.job (generateTaskRefs sp.clock jo.job.status.tasks
        (tasksForRefs sp jo jo.job.status.tasks))).complete = true ∧ NoUnrec sp jo ∨
      (isStarted jo.job && !isDeleted jo.job) = false) →
      (jo.job.deletionTimestamp = none → ∀ n ∈ refNames (sync sp jo).2.1, n ∈ refNames jo.job) ∧
      ∀ n ∈ refNames (sync sp jo).2.1, n ∈ passNames sp jo) ∧
    Coh sp.d (sync sp jo).2.1 ∧
    ((sync sp jo).2.1 = jo.job ∨ ((sync sp jo).2.1.deletionTimestamp = none →
      (sync sp jo).2.1.status.condition = getCondition sp.clock sp.d (sync sp jo).2.1)) := by
  have hN0 : ∀ r ∈ jo.job.status.tasks, r.name ∈ passNames sp jo :=
    fun r hr => List.mem_append_left _ (List.mem_map_of_mem hr)
  have hrefl := SyncRes.refl (P := sp.pods) (N := passNames sp jo) hg hrs hfin hN0
  unfold sync
  (try simp only)
  -- the part before the status recomputation
  have h1 : ∀ b, (if (isStarted jo.job && !isDeleted jo.job) = true then syncJobTasks sp jo jo.job
      else (sp, some jo.job)).2 = some b →
      SyncRes j0 sp.d sp.pods (passNames sp jo) jo.job b ∧ JobLe jo.job b ∧
      ((isStarted jo.job && !isDeleted jo.job) = false → b = jo.job) ∧
      (((getParallelTaskSummary sp.d jo.job (generateTaskRefs sp.clock jo.job.status.tasks
          (tasksForRefs sp jo jo.job.status.tasks))).complete = true ∧ NoUnrec sp jo ∨
        (isStarted jo.job && !isDeleted jo.job) = false) → ∀ n ∈ refNames b, n ∈ refNames jo.job) := by
    intro b
    split
    · rename_i hc
      have hc' := hc
      simp only [Bool.and_eq_true, Bool.not_eq_true'] at hc'
      intro hb
      obtain ⟨T, hg3, hT⟩ := syncJobTasks_g3 sp jo ctx hwf hjo hg hrs hfin hc'.1 hc'.2 hcan b hb
      refine ⟨hg3.res, (syncJobTasks_spec sp jo sp hc'.1 hc'.2 (CreatePhase.refl _)).2 b hb,
        (fun hx => by rw [hc] at hx; cases hx), ?_⟩
      intro hcond n hn
      rcases hcond with hcond | hcond
      · rcases hg3.names n hn with h | h
        · exact h
        · exact hT hcond.1 hcond.2 n h
      · rw [hc] at hcond; cases hcond
    · intro hb; cases hb
      exact ⟨hrefl, JobLe.refl _, fun _ => rfl, fun _ n hn => hn⟩
  have hfr1 : (isStarted jo.job && !isDeleted jo.job) = false →
      (if (isStarted jo.job && !isDeleted jo.job) = true then syncJobTasks sp jo jo.job
        else (sp, some jo.job)).1 = sp := by
    intro hc; simp [hc]
  have hd1 : (if (isStarted jo.job && !isDeleted jo.job) = true then syncJobTasks sp jo jo.job
        else (sp, some jo.job)).1.d = sp.d := by
    split
    · rename_i hc
      simp only [Bool.and_eq_true, Bool.not_eq_true'] at hc
      exact (syncJobTasks_spec sp jo sp hc.1 hc.2 (CreatePhase.refl _)).1.static.d
    · rfl
  have hc1 : (if (isStarted jo.job && !isDeleted jo.job) = true then syncJobTasks sp jo jo.job
        else (sp, some jo.job)).1.clock = sp.clock := by
    split
    · rename_i hc
      simp only [Bool.and_eq_true, Bool.not_eq_true'] at hc
      exact (syncJobTasks_spec sp jo sp hc.1 hc.2 (CreatePhase.refl _)).1.static.clock
    · rfl
  generalize (if (isStarted jo.job && !isDeleted jo.job) = true then syncJobTasks sp jo jo.job
      else (sp, some jo.job)) = r1 at h1 hfr1 hd1 hc1 ⊢
  obtain ⟨s1, o1⟩ := r1
  cases o1 with
  | none => (try simp only); exact ⟨hrefl, fun _ => ⟨fun _ n hn => hn, fun n hn => List.mem_append_left _ hn⟩, hcoh, by simp⟩
  | some rj1 =>
    (try simp only)
    obtain ⟨hres1, hle1, heq1, hn1⟩ := h1 rj1 rfl
    have hcoh2 : Coh sp.d (syncJobStatusFromTaskRefs s1 (jobKey jo) rj1).2 := by
      have := syncJobStatusFromTaskRefs_coh s1 (jobKey jo) rj1 (by rw [hle1.template]; exact htm)
        (by rw [hres1.adm]; exact hadm)
      rw [hd1] at this; exact this
    have heq2 : (syncJobStatusFromTaskRefs s1 (jobKey jo) rj1).2.deletionTimestamp = none →
        (syncJobStatusFromTaskRefs s1 (jobKey jo) rj1).2.status.condition =
          getCondition sp.clock sp.d (syncJobStatusFromTaskRefs s1 (jobKey jo) rj1).2 := by
      intro hdn
      have := syncJobStatusFromTaskRefs_condEq s1 (jobKey jo) rj1 (by rw [hle1.template]; exact htm)
        (by rw [hres1.adm]; exact hadm) hdn
      rw [hd1, hc1] at this; exact this
    have h2 := syncJobStatusFromTaskRefs_res s1 (jobKey jo) jo.job rj1 hres1
    have hle2 := (syncJobStatusFromTaskRefs_spec s1 (jobKey jo) rj1)
    generalize syncJobStatusFromTaskRefs s1 (jobKey jo) rj1 = r2 at h2 hle2 hcoh2 heq2 ⊢
    obtain ⟨s2, rj2⟩ := r2
    (try simp only at h2 hle2 hcoh2 heq2 ⊢)
    have hn2 : ((getParallelTaskSummary sp.d jo.job (generateTaskRefs sp.clock jo.job.status.tasks
          (tasksForRefs sp jo jo.job.status.tasks))).complete = true ∧ NoUnrec sp jo ∨
        (isStarted jo.job && !isDeleted jo.job) = false) → ∀ n ∈ refNames rj2, n ∈ refNames jo.job := by
      intro hc n hn
      unfold refNames at hn
      rw [h2.2] at hn
      exact hn1 hc n hn
    have fin4 : ∀ (s3 : Sys) (hfr : rj2.deletionTimestamp.isSome = true → Frame sp s3)
        (hN : ∀ r ∈ rj2.status.tasks, r.name ∈ passNames sp jo),
        SyncRes j0 sp.d sp.pods (passNames sp jo) jo.job
          (match handleFinalizer s3 jo rj2 jo.finalizer with
            | (s4, none) => (s4, rj2, jo.finalizer, false, statusHasNullTime s1 rj1)
            | (s4, some (rj3, fin)) => (s4, rj3, fin, true,
                match finalizerStatusInput s3 jo rj2 jo.finalizer with
                | some inp => statusHasNullTime s3 inp
                | none => statusHasNullTime s1 rj1)).2.1 ∧
        (((getParallelTaskSummary sp.d jo.job (generateTaskRefs sp.clock jo.job.status.tasks
            (tasksForRefs sp jo jo.job.status.tasks))).complete = true ∧ NoUnrec sp jo ∨
          (isStarted jo.job && !isDeleted jo.job) = false) →
          (rj2.deletionTimestamp = none → ∀ n ∈ refNames (match handleFinalizer s3 jo rj2 jo.finalizer with
            | (s4, none) => (s4, rj2, jo.finalizer, false, statusHasNullTime s1 rj1)
            | (s4, some (rj3, fin)) => (s4, rj3, fin, true,
                match finalizerStatusInput s3 jo rj2 jo.finalizer with
                | some inp => statusHasNullTime s3 inp
                | none => statusHasNullTime s1 rj1)).2.1, n ∈ refNames jo.job) ∧
          ∀ n ∈ refNames (match handleFinalizer s3 jo rj2 jo.finalizer with
            | (s4, none) => (s4, rj2, jo.finalizer, false, statusHasNullTime s1 rj1)
            | (s4, some (rj3, fin)) => (s4, rj3, fin, true,
                match finalizerStatusInput s3 jo rj2 jo.finalizer with
                | some inp => statusHasNullTime s3 inp
                | none => statusHasNullTime s1 rj1)).2.1, n ∈ passNames sp jo) ∧
        (rj2.deletionTimestamp.isSome = true →
          (match handleFinalizer s3 jo rj2 jo.finalizer with
            | (s4, none) => (s4, rj2, jo.finalizer, false, statusHasNullTime s1 rj1)
            | (s4, some (rj3, fin)) => (s4, rj3, fin, true,
                match finalizerStatusInput s3 jo rj2 jo.finalizer with
                | some inp => statusHasNullTime s3 inp
                | none => statusHasNullTime s1 rj1)).2.1.deletionTimestamp.isSome = true) := by
      intro s3 hfr hN
      have hle4 := (handleFinalizer_spec s3 jo sp rj2 jo.finalizer).2
      have h4 := handleFinalizer_res sp s3 jo rj2 jo.finalizer (passNames sp jo) ctx hjo.uid hfr h2.1.good h2.1.rs
        h2.1.fin hN (fun n hn => List.mem_append_right _ hn)
      generalize handleFinalizer s3 jo rj2 jo.finalizer = r4 at h4 hle4 ⊢
      obtain ⟨s4, o4⟩ := r4
      cases o4 with
      | none => exact ⟨h2.1, fun hc => ⟨fun _ => hn2 hc, fun n hn => List.mem_append_left _ (hn2 hc n hn)⟩, fun h => h⟩
      | some v =>
        obtain ⟨rj3, fz⟩ := v
        obtain ⟨hres4, hn4, heq4⟩ := h4 rj3 fz rfl
        refine ⟨h2.1.trans hres4, fun hc => ⟨fun hnd n hn => ?_, fun n hn => ?_⟩,
          fun h => by show rj3.deletionTimestamp.isSome = true; rw [(hle4 rj3 fz rfl).del]; exact h⟩
        · show n ∈ refNames jo.job
          have hn' : n ∈ refNames rj3 := hn
          rw [heq4 hnd] at hn'
          exact hn2 hc n hn'
        · show n ∈ passNames sp jo
          rcases hn4 n hn with h | h
          · exact List.mem_append_left _ (hn2 hc n h)
          · exact List.mem_append_right _ h
    by_cases hd2 : rj2.deletionTimestamp.isSome = true
    · have hdj : isDeleted jo.job = true := by
        unfold isDeleted; rw [← hle1.del, ← hle2.2.del]; exact hd2
      have hc : (isStarted jo.job && !isDeleted jo.job) = false := by simp [hdj]
      have hs1 : s1 = sp := hfr1 hc
      rw [handleTTL_deleted s2 jo rj2 hd2]
      (try simp only)
      have hN2 : ∀ r ∈ rj2.status.tasks, r.name ∈ passNames sp jo := by
        intro r hr
        rw [h2.2, heq1 hc] at hr
        exact hN0 r hr
      obtain ⟨f1, f2, f3⟩ := fin4 s2 (fun _ => hs1 ▸ hle2.1) hN2
      refine ⟨f1, fun hcnd => ⟨fun hnd => ?_, (f2 hcnd).2⟩, coh_of_deleted (f3 hd2), Or.inr ?_⟩
      · exfalso
        unfold isDeleted at hdj
        rw [hnd] at hdj; cases hdj
      intro hnd
      exact absurd hnd (Option.isSome_iff_ne_none.mp (f3 hd2))
    · generalize handleTTL s2 jo rj2 = r3
      obtain ⟨s3, ok3⟩ := r3
      cases ok3 with
      | false =>
        (try simp only)
        exact ⟨h2.1, fun hc => ⟨fun _ => hn2 hc, fun n hn => List.mem_append_left _ (hn2 hc n hn)⟩, hcoh2, Or.inr heq2⟩
      | true =>
        (try simp only)
        -- not being deleted: `handleFinalizer` returns the Job unchanged
        have hret : handleFinalizer s3 jo rj2 jo.finalizer = (s3, some (rj2, jo.finalizer)) := by
          unfold handleFinalizer
          have : rj2.deletionTimestamp.isNone = true := by cases hx : rj2.deletionTimestamp <;> simp_all
          simp [this]
        rw [hret]
        exact ⟨h2.1, fun hc => ⟨fun _ => hn2 hc, fun n hn => List.mem_append_left _ (hn2 hc n hn)⟩, hcoh2, Or.inr heq2⟩

end Furiko.JobCtl
