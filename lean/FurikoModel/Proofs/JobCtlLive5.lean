/-
Liveness of the job controller, part 5: one whole pass (`syncJobTasks`, `Reconciler.sync`, `SyncOne`)
on a simple Job, given what the creation stage did: when no task is past its pending deadline or being
deleted and the TTL has not elapsed, the pass writes the recomputed status over the task list the
creation stage hands on (`recompute`), by ONE status update if and only if that status differs from
the cached one, and otherwise only arms timers.  Core Lean only.
-/
import FurikoModel.Proofs.JobCtlLive4

set_option linter.unusedSimpArgs false
set_option linter.unusedVariables false

namespace Furiko.JobCtl.Live
open Furiko Furiko.JobCtl Furiko.WQ Furiko.StatusLemmas Furiko.JobCtlPlan

theorem getPendingTimeout_sameSpec {a b : Job} (h : SameSpec a b) (cfg : ExecConfig) :
    getPendingTimeout b cfg = getPendingTimeout a cfg := by
  unfold getPendingTimeout; rw [h.template]

/-- `syncJobTasks` after the creation stage, when the handlers have nothing to do -/
theorem syncJobTasks_simple (sp : Sys) (jo : JobObj) (s1 : Sys) (rjA : Job) (T1 : List Task)
    (hcreate : syncCreateTasks sp jo jo.job (tasksForRefs sp jo jo.job.status.tasks) = (s1, some (rjA, T1)))
    (hA : SimpleSpec rjA)
    (hquiet : ∀ pt, getPendingTimeout rjA s1.cfg = some pt → 0 < pt → ∀ t ∈ T1, PendQuiet s1.clock pt t)
    (hnodel : ∀ t ∈ T1, t.deletionTimestamp = none)
    (hgen : generateTaskRefs s1.clock (generateTaskRefs s1.clock rjA.status.tasks T1) T1 =
      generateTaskRefs s1.clock rjA.status.tasks T1)
    (hT1fn : TasksFn T1) :
    ∃ s6, syncJobTasks sp jo jo.job = (s6, some (recompute s1.clock s1.d rjA T1)) ∧
      TimersOnly (jobKey jo) s1 s6 ∧
      ((recompute s1.clock s1.d rjA T1).status.condition.finished = none →
        (∀ t ∈ T1, t.ref.finishTimestamp.isSome = true ∨ t.ref.runningTimestamp.isSome = true) → s6 = s1) := by
  have hF : SimpleSpec (recompute s1.clock s1.d rjA T1) := hA.recompute _ _ _
  have hsame := (recompute_sameSpec s1.clock s1.d rjA T1).1
  -- first refresh
  have hU2 := updateTaskRefStatus_snd s1 (jobKey jo) rjA T1
  have hU1 := updateTaskRefStatus_fst s1 (jobKey jo) rjA T1
  have hU1' := updateTaskRefStatus_fst_unfinished s1 (jobKey jo) rjA T1
  generalize hU : updateTaskRefStatus s1 (jobKey jo) rjA T1 = U at hU1 hU2 hU1'
  obtain ⟨s2, rj2⟩ := U
  simp only at hU1 hU2 hU1'
  subst hU2
  have hst2 := hU1.static
  -- pending tasks
  obtain ⟨s3, hP, hP1, hP1'⟩ := handlePending_quiet s2 jo (recompute s1.clock s1.d rjA T1) T1
    hT1fn s1.clock rjA.status.tasks (recompute_sameSpec s1.clock s1.d rjA T1).2.1 (by
    intro pt hpt hpos
    rw [hst2.1]
    apply hquiet pt _ hpos
    rw [← getPendingTimeout_sameSpec hsame, ← hst2.2.2.1]; exact hpt)
  have hst3 := hP1.static
  -- second refresh
  have hV2 := updateTaskRefStatus_snd s3 (jobKey jo) (recompute s1.clock s1.d rjA T1) T1
  have hV1 := updateTaskRefStatus_fst s3 (jobKey jo) (recompute s1.clock s1.d rjA T1) T1
  have hV1' := updateTaskRefStatus_fst_unfinished s3 (jobKey jo) (recompute s1.clock s1.d rjA T1) T1
  have hclk : s3.clock = s1.clock := hst3.1.trans hst2.1
  have hd : s3.d = s1.d := hst3.2.1.trans hst2.2.1
  have hidem : recompute s3.clock s3.d (recompute s1.clock s1.d rjA T1) T1 = recompute s1.clock s1.d rjA T1 := by
    rw [hclk, hd]
    exact recompute_idem s1.clock s1.clock s1.d rjA T1 T1 hA hgen
  rw [hidem] at hV2 hV1'
  generalize hV : updateTaskRefStatus s3 (jobKey jo) (recompute s1.clock s1.d rjA T1) T1 = V at hV1 hV2 hV1'
  obtain ⟨s6, rj6⟩ := V
  simp only at hV1 hV2 hV1'
  subst hV2
  refine ⟨s6, ?_, hU1.trans (hP1.trans hV1), ?_⟩
  · unfold syncJobTasks
    simp only [hcreate, hU, hP, handleKill_simple s3 jo _ T1 hF, handleForce_quiet s3 jo _ T1 hnodel, hV]
  · intro hunf hall
    have e2 : s2 = s1 := hU1' hunf
    have e3 : s3 = s2 := hP1' hall
    have e6 : s6 = s3 := hV1' hunf
    rw [e6, e3, e2]

/-- `Reconciler.sync` on a simple Job, given what the creation stage did -/
theorem sync_simple (sp : Sys) (jo : JobObj) (s1 : Sys) (rjA : Job) (T1 : List Task) (hjo : SimpleSpec jo.job)
    (hcreate : syncCreateTasks sp jo jo.job (tasksForRefs sp jo jo.job.status.tasks) = (s1, some (rjA, T1)))
    (hA : SimpleSpec rjA) (hcfg : s1.cfg = sp.cfg) (hclk : s1.clock = sp.clock)
    (hquiet : ∀ pt, getPendingTimeout rjA s1.cfg = some pt → 0 < pt → ∀ t ∈ T1, PendQuiet s1.clock pt t)
    (hnodel : ∀ t ∈ T1, t.deletionTimestamp = none)
    (hgen : generateTaskRefs s1.clock (generateTaskRefs s1.clock rjA.status.tasks T1) T1 =
      generateTaskRefs s1.clock rjA.status.tasks T1)
    (httl : ∀ fin, (recompute s1.clock s1.d rjA T1).status.condition.finished = some fin →
      fin.finishTimestamp.getD zeroTime + getTTLAfterFinished (recompute s1.clock s1.d rjA T1) sp.cfg > sp.clock)
    (hT1fn : TasksFn T1) :
    ∃ s', sync sp jo = (s', recompute s1.clock s1.d rjA T1, jo.finalizer, true, false) ∧
      TimersOnly (jobKey jo) s1 s' ∧
      ((recompute s1.clock s1.d rjA T1).status.condition.finished = none →
        (∀ t ∈ T1, t.ref.finishTimestamp.isSome = true ∨ t.ref.runningTimestamp.isSome = true) → s' = s1) := by
  obtain ⟨s6, h6, ht6, hex6⟩ := syncJobTasks_simple sp jo s1 rjA T1 hcreate hA hquiet hnodel hgen hT1fn
  have hF : SimpleSpec (recompute s1.clock s1.d rjA T1) := hA.recompute _ _ _
  have hst6 := ht6.static
  have hstage : syncTasksStage sp jo = (s6, some (recompute s1.clock s1.d rjA T1)) := by
    unfold syncTasksStage
    have h1 : isStarted jo.job = true := hjo.started
    have h2 : isDeleted jo.job = false := by unfold isDeleted; rw [hjo.del]; rfl
    simp only [h1, h2, Bool.not_false, Bool.and_self, ↓reduceIte]
    exact h6
  -- the last status refresh returns the same Job
  have hu2 : (syncJobStatusFromTaskRefs s6 (jobKey jo) (recompute s1.clock s1.d rjA T1)).2 =
      recompute s1.clock s1.d rjA T1 := by
    rw [syncJobStatus_snd', hst6.2.1]
    exact statusOf_idem s1.clock s6.clock s1.d (updateJobTaskRefs s1.clock rjA T1)
      (hA.congr (updateJobTaskRefs_sameSpec s1.clock rjA T1) rfl)
  have hu1 := syncJobStatus_fst s6 (jobKey jo) (recompute s1.clock s1.d rjA T1)
  have hu1' : (recompute s1.clock s1.d rjA T1).status.condition.finished = none →
      (syncJobStatusFromTaskRefs s6 (jobKey jo) (recompute s1.clock s1.d rjA T1)).1 = s6 := by
    intro hunf
    apply syncJobStatus_fst_unfinished
    have : statusOf s6.clock s6.d (recompute s1.clock s1.d rjA T1) = recompute s1.clock s1.d rjA T1 := by
      rw [← syncJobStatus_snd' s6 (jobKey jo)]; exact hu2
    rw [this]; exact hunf
  generalize hU : syncJobStatusFromTaskRefs s6 (jobKey jo) (recompute s1.clock s1.d rjA T1) = U at hu1 hu2 hu1'
  obtain ⟨s7, rj7⟩ := U
  simp only at hu1 hu2 hu1'
  subst hu2
  have hst7 := hu1.static
  -- TTL
  have hT : ∃ s8, handleTTL s7 jo (recompute s1.clock s1.d rjA T1) = (s8, true) ∧ TimersOnly (jobKey jo) s7 s8 ∧
      ((recompute s1.clock s1.d rjA T1).status.condition.finished = none → s8 = s7) := by
    cases hfin : (recompute s1.clock s1.d rjA T1).status.condition.finished with
    | none => exact ⟨s7, handleTTL_unfinished s7 jo _ hfin, TimersOnly.refl _ _, fun _ => rfl⟩
    | some fin =>
      have he := httl fin hfin
      have hc7 : s7.clock = sp.clock := hst7.1.trans (hst6.1.trans hclk)
      have hcfg7 : s7.cfg = sp.cfg := hst7.2.2.1.trans (hst6.2.2.1.trans hcfg)
      refine ⟨_, handleTTL_early s7 jo _ fin hF.del hfin (by rw [hc7, hcfg7]; exact he),
        enqueueAfter_timersOnly _ _ _, fun h => by cases h⟩
  obtain ⟨s8, hT8, ht8, hex8⟩ := hT
  refine ⟨s8, ?_, ht6.trans (hu1.trans ht8), ?_⟩
  · rw [sync_eq]
    simp only [hstage, hU, hT8, handleFinalizer_live s8 jo _ jo.finalizer hF.del,
      finalizerStatusInput_live s8 jo _ jo.finalizer hF.del, statusHasNullTime_live s6 _ hF.del]
  · intro hunf hall
    rw [hex8 hunf, hu1' hunf, hex6 hunf hall]

/-- `SyncOne` on a simple Job: no spec update; one status update exactly when the status changed -/
theorem syncOne_simple (sp : Sys) (jo : JobObj) (s' : Sys) (rjF : Job) (hc : sp.jobCache = some jo)
    (hsync : sync sp jo = (s', rjF, jo.finalizer, true, false)) (hadm : rjF.admissionError = jo.job.admissionError) :
    syncOne sp =
      if rjF.status ≠ jo.job.status then
        ((apiUpdateJobStatus s' jo { jo with job := rjF }).1, (apiUpdateJobStatus s' jo { jo with job := rjF }).2)
      else (s', true) := by
  unfold syncOne
  simp only [hc, hsync, hadm, ne_eq, not_true_eq_false, decide_false, Bool.or_self, Bool.false_eq_true, ↓reduceIte,
    Bool.not_true, Bool.or_false, statusBase_false]
  by_cases hd : rjF.status = jo.job.status
  · simp [hd]
  · simp only [hd, not_false_eq_true, decide_true, ↓reduceIte]
    cases (apiUpdateJobStatus s' jo { jo with job := rjF }).2 <;> simp

end Furiko.JobCtl.Live
