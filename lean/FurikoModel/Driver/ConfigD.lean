/- Line-protocol driver of the `config` engine (C19): ops of harness/eng/config.go in, canonical
outputs of the Lean model out.  `decode` is instantiated with the per-(config, key, value) table
that the Go side declares with `cfg.dec` (obtained there from the real mapstructure library). -/
import FurikoModel.Model.Config
import FurikoModel.Driver.Proto
namespace Furiko.Driver
open Furiko Furiko.Config

structure ConfigDS where
  mgr : Mgr String := {}
  /-- (config name, key, value token) ↦ "ign" | "bad" | "ok:<repr>" -/
  dec : List ((String × String × String) × String) := []

def valOfTok (s : String) : Val :=
  match s.toList with
  | 'a' :: e :: ':' :: r => .atom (String.ofList r) (e == '1')
  | 'o' :: e :: ':' :: r => .obj (String.ofList r) (e == '1')
  | _ => .null

def tokOfVal : Val → String
  | .null => "z"
  | .atom r e => "a" ++ (if e then "1" else "0") ++ ":" ++ r
  | .obj r e => "o" ++ (if e then "1" else "0") ++ ":" ++ r

def cmapOfTok (s : String) : CMap :=
  if s = "{}" ∨ s = "" then []
  else (s.splitOn ";").filterMap fun kv =>
    match kv.splitOn "~" with
    | [k, v] => some (k, valOfTok v)
    | _ => none

def insertSorted (kv : String × Val) : List (String × Val) → List (String × Val)
  | [] => [kv]
  | x :: rest => if kv.1 < x.1 then kv :: x :: rest else x :: insertSorted kv rest

def tokOfCmap (m : CMap) : String :=
  if m.isEmpty then "{}"
  else ";".intercalate ((m.foldr insertSorted []).map fun kv => kv.1 ++ "~" ++ tokOfVal kv.2)

def insertStr (s : String) : List String → List String
  | [] => [s]
  | x :: rest => if s < x then s :: x :: rest else if s = x then x :: rest else x :: insertStr s rest

/-- `name|!` or `name|<cmap>` -/
def entryOfTok (s : String) : Entry :=
  match s.splitOn "|" with
  | [n, "!"] => (n, none)
  | [n, c] => (n, some (cmapOfTok c))
  | _ => (s, none)

def unsetRepr (goType : String) : String :=
  if goType.startsWith "*" then "nil"
  else if goType = "string" then "%-"
  else if goType = "int64" then "0"
  else if goType = "bool" then "false"
  else "%-/%-"

def lookupAssoc {β} (l : List (String × β)) (k : String) : Option β :=
  match l with
  | [] => none
  | (k', v) :: rest => if k' = k then some v else lookupAssoc rest k

def decLookup (tbl : List ((String × String × String) × String)) (n k v : String) : Option String :=
  match tbl with
  | [] => none
  | ((n', k', v'), r) :: rest => if n' = n ∧ k' = k ∧ v' = v then some r else decLookup rest n k v

/-- the decode function of this run: fails iff some bound key's value is declared undecodable;
the rendering lists every field of the kind in declaration order. -/
def tableDecode (tbl : List ((String × String × String) × String)) (name : String) (c : CMap) : Option String :=
  match lookupAssoc Facts.configFields name with
  | none => none
  | some fields =>
    let results := c.map fun kv => decLookup tbl name kv.1 (tokOfVal kv.2)
    if results.any (· == none) then some "no-oracle"
    else if results.any (· == some "bad") then none
    else
      some (";".intercalate (fields.map fun f =>
        f.1 ++ "=" ++
          match lookup c f.1 with
          | none => unsetRepr f.2
          | some v =>
            match decLookup tbl name f.1 (tokOfVal v) with
            | some r => if r.startsWith "ok:" then (r.drop 3).toString else unsetRepr f.2
            | none => "no-oracle"))

def evKindOf (s : String) : EvKind :=
  if s = "add" then .add else if s = "update" then .update else .delete

def threeNames : List String := Facts.configReaders.map (·.2)

def loadsOf (l : KLoader) (names : List String) : String :=
  " ".intercalate (names.map fun n =>
    n ++ "=" ++ tokOfCmap (l.load n))

def configStep (s : ConfigDS) (t : List String) : ConfigDS × String :=
  match t with
  | ["cfg.reset"] => ({}, "ok")
  | ["cfg.defaults", "builtin"] =>
    let d := Facts.configDefaults.map fun (n, kvs) => (n, kvs.map fun (k, v) => (k, valOfTok v))
    ({ s with mgr := { s.mgr with defaultsObj := d } }, "ok")
  | "cfg.defaults" :: es =>
    let d := es.filterMap fun e =>
      match entryOfTok e with
      | (n, some c) => some (n, c)
      | _ => none
    ({ s with mgr := { s.mgr with defaultsObj := d } }, "ok")
  | ["cfg.start"] => ({ s with mgr := s.mgr.start }, "ok")
  | ["cfg.dec", n, k, v, r] => ({ s with dec := ((n, k, v), r) :: s.dec }, "ok")
  | "cfg.ev" :: src :: kind :: target :: es =>
    let entries := es.map entryOfTok
    let sr := if src = "cm" then Src.cm else Src.sec
    let m := s.mgr.applyEv sr (evKindOf kind) (bool! target) entries
    let names := threeNames ++ (entries.foldr (fun e acc => insertStr e.1 acc) []).filter (fun n => !threeNames.contains n)
    let l := if src = "cm" then m.cm else m.sec
    ({ s with mgr := m }, loadsOf l names)
  | ["cfg.read", n] =>
    let (m, r) := s.mgr.read (tableDecode s.dec) n
    ({ s with mgr := m }, match r with | some t => "ok " ++ t | none => "err")
  | ["cfg.readall"] =>
    let (m, outs) := threeNames.foldl (fun (acc : Mgr String × List (Option String)) n =>
      let (m', r) := acc.1.read (tableDecode s.dec) n
      (m', acc.2 ++ [r])) (s.mgr, [])
    if outs.any (· == none) then (s, "err")
    else ({ s with mgr := m }, "ok " ++ " | ".intercalate (outs.map fun o => o.getD ""))
  | _ => (s, "bad-op")

end Furiko.Driver
