import FurikoModel.Model.Retry
import FurikoModel.Driver.Proto
/- Driver of the `retry.` line protocol (harness/eng/retry.go, harness/eng/system.go). -/
namespace Furiko.Driver
open Furiko Furiko.WQ Furiko.Retry

structure RetryQ where
  id  : String
  max : Int
  q   : WQ := {}
  deriving Inhabited

structure RetryDS where
  qs : List RetryQ := []
  deriving Inhabited

def rInsertStr (x : String) : List String → List String
  | [] => [x]
  | y :: rest => if x < y then x :: y :: rest else y :: rInsertStr x rest

def rSortStrs (l : List String) : List String := l.foldl (fun acc x => rInsertStr x acc) []

def rInsertReq (x : String × Nat) : List (String × Nat) → List (String × Nat)
  | [] => [x]
  | y :: rest => if x.1 < y.1 then x :: y :: rest else y :: rInsertReq x rest

def retryDigestL (q : WQ) : String :=
  let reqs := (q.requeues.filter (·.2 ≠ 0)).foldl (fun acc x => rInsertReq x acc) []
  "r=" ++ ",".intercalate q.queue ++
  ";p=" ++ ",".intercalate (rSortStrs q.processing) ++
  ";y=" ++ ",".intercalate (rSortStrs q.dirty) ++
  ";d=" ++ ",".intercalate (q.delayedSorted.map fun (k, d) => s!"{k}@{d}") ++
  ";n=" ++ ",".intercalate (reqs.map fun (k, n) => s!"{k}:{n}")

/-- `A k` / `D k t` token groups -/
def parseOps : List String → List QOp
  | "A" :: k :: rest => .add k :: parseOps rest
  | "D" :: k :: t :: rest => .addAfter k (int! t) :: parseOps rest
  | _ => []

def RetryDS.upd (d : RetryDS) (id : String) (f : RetryQ → RetryQ) : RetryDS × String :=
  match d.qs.find? (·.id = id) with
  | none => (d, "no-queue")
  | some rq =>
    let rq' := f rq
    ({ qs := d.qs.map fun x => if x.id = id then rq' else x }, retryDigestL rq'.q)

def retryStep (d : RetryDS) (t : List String) : RetryDS × String :=
  match t with
  | ["retry.reset"] => ({}, "ok")
  | ["retry.new", id, mx] =>
    let rq : RetryQ := { id := id, max := int! mx }
    ({ qs := d.qs.filter (·.id ≠ id) ++ [rq] }, retryDigestL rq.q)
  | "retry.ext" :: id :: now :: ops =>
    d.upd id fun rq => { rq with q := applyOps rq.q (int! now) (parseOps ops) }
  | ["retry.adv", id, now] =>
    d.upd id fun rq => { rq with q := rq.q.advance (int! now) }
  | "retry.step" :: id :: now :: res :: ops =>
    d.upd id fun rq => { rq with q := work rq.q rq.max (int! now) { ok := res = "ok", during := parseOps ops } }
  | _ => (d, "bad-op")

end Furiko.Driver
