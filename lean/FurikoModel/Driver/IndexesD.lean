import FurikoModel.Model.Indexes
import FurikoModel.Model.HashEnc
import FurikoModel.Driver.Proto
import Std.Data.HashMap
/-! Line-protocol driver of the `indexes` engine (property C14). Ops: see harness/eng/indexes.go. -/
namespace Furiko.Driver
open Furiko Furiko.Indexes

/-- the Go side's `ex` encoding: every byte except `[A-Za-z0-9_.]` is `%XX`; the empty string is `%-` -/
def encX (s : String) : String :=
  if s = "" then "%-" else
  let hex (n : Nat) : Char := if n < 10 then Char.ofNat (48 + n) else Char.ofNat (55 + n)
  s.toUTF8.toList.foldl (fun acc b =>
    let n := b.toNat
    if (97 ≤ n ∧ n ≤ 122) ∨ (65 ≤ n ∧ n ≤ 90) ∨ (48 ≤ n ∧ n ≤ 57) ∨ n = 95 ∨ n = 46 then
      acc.push (Char.ofNat n)
    else (acc.push '%').push (hex (n / 16)) |>.push (hex (n % 16))) ""

/-- `~` = empty list, otherwise items separated by `sep` -/
def listTok (s : String) (sep : String) : List String :=
  if s = "~" then [] else s.splitOn sep

def showList (l : List String) (sep : String) : String :=
  if l.isEmpty then "~" else sep.intercalate l

def parseIndex (s : String) : Index :=
  match s.splitOn "/" with
  | [n, k, m] =>
    { num := optInt n, key := unq k,
      mat := (listTok m ",").map fun kv =>
        match kv.splitOn "=" with
        | [a, b] => (unq a, unq b)
        | _ => (kv, "") }
  | _ => {}

def showIndex (ix : Index) : String :=
  showOptInt ix.num ++ "/" ++ encX ix.key ++ "/" ++
    showList (ix.mat.map fun kv => encX kv.1 ++ "=" ++ encX kv.2) ","

def parseMatrix (s : String) : Matrix :=
  (listTok s "&").map fun col =>
    match col.splitOn "|" with
    | [k, vs] => (unq k, (listTok vs ";").map unq)
    | _ => (col, [])

def perms {α : Type} : List α → List (List α)
  | [] => [[]]
  | x :: xs => (perms xs).flatMap fun p =>
      (List.range (p.length + 1)).map fun i => p.take i ++ x :: p.drop i

def dedup {α : Type} [DecidableEq α] : List α → List α
  | [] => []
  | x :: xs => if x ∈ xs then dedup xs else x :: dedup xs

def sortStr (l : List String) : List String := l.mergeSort (fun a b => decide (a ≤ b))

def showOutcome : Option (List Index) → String
  | none => "panic"
  | some ixs => toString ixs.length ++ " " ++ showList (ixs.map showIndex) ";"

/-- all outcomes of `GenerateIndexes` over the possible map-iteration orders of `withMatrix`
(one representative order per distinct `NumCombinations` result) -/
def genOutcomes (spec : Option Spec) : List String :=
  match spec with
  | none => [showOutcome (generateIndexes none)]
  | some sp =>
    if sp.withMatrix.length ≤ 1 ∨ sp.withMatrix.length > 7 then [showOutcome (generateIndexes (some sp))]
    else
      let ps := perms sp.withMatrix
      let reps := ps.foldl (fun (acc : List (Nat × Matrix)) p =>
        let t := numCombinations p
        if acc.any (·.1 = t) then acc else acc ++ [(t, p)]) []
      sortStr (dedup (reps.map fun tp => showOutcome (generateIndexes (some { sp with withMatrix := tp.2 }))))

def showErrs (es : List VErr) : String :=
  if es.isEmpty then "ok" else
  let c (k : VErr) := toString (es.filter (· = k)).length
  "invalid F" ++ c .forbidden ++ "R" ++ c .required ++ "I" ++ c .invalid ++ "N" ++ c .notSupported

structure IdxDS where
  spec : Option Spec := none
  indexes : List Index := []
  hashes : List String := []
  table : Std.HashMap String String := {}   -- rendered index ↦ transmitted hash (first occurrence)

/-- the transmitted hash oracle: the hash the Go side reported for the first equal index -/
def IdxDS.hash (s : IdxDS) (ix : Index) : String :=
  (s.table.get? (showIndex ix)).getD "?"

def mkTable (ixs : List Index) (hs : List String) : Std.HashMap String String :=
  (ixs.zip hs).foldl (fun t p => t.insertIfNew (showIndex p.1) p.2) {}

def showPairs (l : List (String × Nat)) : String :=
  let sorted := l.mergeSort (fun a b => decide (a.1 ≤ b.1))
  showList (sorted.map fun p => p.1 ++ ":" ++ toString p.2) ","

def showDup : Option (Nat × Nat) → String
  | none => "-"
  | some (j, i) => toString j ++ "," ++ toString i

def idxStep (s : IdxDS) (t : List String) : IdxDS × String :=
  match t with
  | ["idx.spec", _, "nil", hs] =>
    let ixs := (generateIndexes none).getD []
    let hl := if hs = "-" then [] else listTok hs ";"
    ({ spec := none, indexes := ixs, hashes := hl, table := mkTable ixs hl }, "nil")
  | ["idx.spec", variant, cnt, keys, mat, strat, hs] =>
    let sp : Spec := { withCount := optInt cnt, withKeys := (listTok keys ";").map unq,
                       withMatrix := parseMatrix mat, strategy := unq strat }
    let ixs := (generateIndexes (some sp)).getD []
    let hl := if hs = "-" then [] else listTok hs ";"
    let s' : IdxDS := { spec := some sp, indexes := ixs, hashes := hl, table := mkTable ixs hl }
    let errs := if variant = "fixed" then validateParallelismSpecFixed s'.hash sp else validateParallelismSpec sp
    (s', showErrs errs)
  | ["idx.gen"] => (s, " || ".intercalate (genOutcomes s.spec))
  | ["idx.sethashes", hs] =>
    let hl := listTok hs ";"
    ({ s with hashes := hl, table := mkTable s.indexes hl }, "ok")
  | ["idx.hashes"] =>
    let r := hashIndexes s.hash s.indexes
    (s, showList r.1 ";" ++ " " ++ showPairs r.2 ++ " " ++ showDup (firstDup r.1))
  | ["idx.slots", tasks] =>
    let ts := if tasks = "all" then s.indexes
              else (listTok tasks ";").filterMap fun p => s.indexes[nat! p]?
    let slots := statusSlots s.hash s.indexes ts
    (s, showList (slots.map fun p => p.1 ++ ":" ++ toString p.2) ",")
  | ["idx.name", name, retry, _ix, h] => (s, encX (generateTaskName (unq name) h (int! retry)))
  | ["idx.vars", name, ns, retry, ix] =>
    let vars := makeVariablesFromTask (unq name) (unq ns) (int! retry) (parseIndex ix)
    let sorted := vars.mergeSort (fun a b => decide (a.1 ≤ b.1))
    (s, showList (sorted.map fun kv => encX kv.1 ++ "=" ++ encX kv.2) ",")
  | ["idx.pod", job, ns, retry, ix, h, envs] =>
    let i := parseIndex ix
    let pv := newPod (fun _ => h) (unq job) (unq ns) (int! retry) i ((listTok envs ";").map unq)
    (s, encX pv.name ++ " " ++ pv.hashLabel ++ " " ++ pv.retryLabel ++ " " ++ showIndex pv.annotation ++ " " ++
        showList (pv.env.map encX) ";")
  | ["idx.enc", us] => (s, showList ((listTok us ";").map fun u => Furiko.HashEnc.hashEnc (nat! u)) ";")
  | ["idx.witness70", hs] => (s, b01 (listTok hs ";" = f3WitnessHashes))
  | ["idx.firstdup", hs] => (s, showDup (firstDup (listTok hs ";")))
  | _ => (s, "bad-op")

end Furiko.Driver
