/-
Line-protocol driver of the `options` engine (ops `opt.*`), see harness/eng/options.go for the
wire format.  Stateless: every op line is self-contained.

Map iteration order (finding F4).  The real `SubstituteVariables` ranges over a Go map, so for a
multi-entry map the implementation's result is one of the results of `substFold` over SOME order
of the entries.  The Go side calls the real code ≥ 30 times and sends the set of distinct results
it observed as part of the op line; this driver answers `ok` iff every observed result is
predicted by the model:
  * `Facts.substSortsKeys = true` (after fix_F4.diff): the unique result of the sorted order;
  * otherwise, class flag `c=1` (keys clean, values `$`-free, template tame — order-independent by
    theorem `subst_order_independent_partial`): the result of the order given on the line;
  * otherwise (`c=0`, maps of at most 6 entries): some order of the entries produces it.
The implementation line is the constant `ok`, so any unpredicted result is a correspondence diff.
Order-exactness of the fold itself is tied separately by `opt.chain` (a list of single-entry maps
through the real `SubstituteVariableMaps`, i.e. a fully controlled order, on arbitrary strings).
-/
import FurikoModel.Model.Subst
import FurikoModel.Driver.Proto

namespace Furiko.Driver.OptionsD
open Furiko Furiko.Driver Furiko.Options Furiko.Subst

/-! ### token parsing -/

abbrev P := StateT (List String) Option

def pTok : P String := fun s =>
  match s with
  | [] => none
  | x :: xs => some (x, xs)

def pStr : P Str := do return (unq (← pTok)).toList
def pNat : P Nat := do
  let t ← pTok
  match t.toNat? with
  | some n => pure n
  | none => failure
def pInt : P Int := do
  let t ← pTok
  match t.toInt? with
  | some n => pure n
  | none => failure
def pOptInt : P (Option Int) := do
  let t ← pTok
  if t = "-" then pure none else
  match t.toInt? with
  | some n => pure (some n)
  | none => failure
def pBool : P Bool := do return (← pTok) = "1"

def pMany {α : Type} (p : P α) : Nat → P (List α)
  | 0 => pure []
  | n + 1 => do
    let x ← p
    let xs ← pMany p n
    pure (x :: xs)

def pList {α : Type} (p : P α) : P (List α) := do
  let n ← pNat
  pMany p n

def pKV : P (Str × Str) := do
  let k ← pStr
  let v ← pStr
  pure (k, v)

def optTypeOf (s : Str) : OptType :=
  if s = "Bool".toList then .bool
  else if s = "String".toList then .string
  else if s = "Select".toList then .select
  else if s = "Multi".toList then .multi
  else if s = "Date".toList then .date
  else .unknown s.isEmpty

def pOpt : P Opt := do
  let o ← pTok
  if o ≠ "O" then failure
  let ty ← pStr
  let name ← pStr
  let label ← pStr
  let req ← pBool
  let b ← pTok
  let bool ← if b = "b+" then do
      let d ← pBool; let f ← pStr; let t ← pStr; let fl ← pStr
      pure (some ({ default := d, format := f, trueVal := t, falseVal := fl } : BoolCfg))
    else pure none
  let s ← pTok
  let string ← if s = "s+" then do
      let d ← pStr; let t ← pBool
      pure (some ({ default := d, trimSpaces := t } : StringCfg))
    else pure none
  let e ← pTok
  let select ← if e = "e+" then do
      let d ← pStr; let a ← pBool; let vs ← pList pStr
      pure (some ({ default := d, values := vs, allowCustom := a } : SelectCfg))
    else pure none
  let m ← pTok
  let multi ← if m = "m+" then do
      let dl ← pStr; let a ← pBool; let ds ← pList pStr; let vs ← pList pStr
      pure (some ({ default := ds, delimiter := dl, values := vs, allowCustom := a } : MultiCfg))
    else pure none
  let d ← pTok
  let date ← if d = "d+" then do
      let f ← pStr
      pure (some ({ format := f } : DateCfg))
    else pure none
  pure { type := optTypeOf ty, name := name, label := label, required := req,
         bool := bool, string := string, select := select, multi := multi, date := date }

def pTimeV : P TimeV := do
  let t ← pTok
  if t = "z" then pure TimeV.zeroTime
  else if t = "t" then do
    let tag ← pStr
    pure { zero := false, tag := tag }
  else failure

def pElem : P (Option Str) := do
  let t ← pTok
  if t = "s" then do return some (← pStr) else pure none

def pValue : P Value := do
  let t ← pTok
  if t = "nil" then pure .null
  else if t = "b0" then pure (.bool false)
  else if t = "b1" then pure (.bool true)
  else if t = "s" then do return .str (← pStr)
  else if t = "l" then do return .list (← pList pElem)
  else if t = "ss" then do return .strs (← pList pStr)
  else if t = "t" then do return .time (← pTimeV)
  else if t = "tp-" then pure (.timePtr none)
  else if t = "tp" then do return .timePtr (some (← pTimeV))
  else if t = "x" then pure .other
  else failure

/-- optional spec: `-` = nil `*OptionSpec` -/
def pSpec : P (Option (List Opt)) := do
  let t ← pTok
  if t = "-" then pure none else
  match t.toNat? with
  | some n => do return some (← pMany pOpt n)
  | none => failure

/-- date oracle tables: `P n (str res)* F m (tag fmt out)*`, res = `e` | `z` | `t tag` -/
def pOracle : P DateOracle := do
  let p ← pTok
  if p ≠ "P" then failure
  let parses ← pList (do
    let s ← pStr
    let r ← pTok
    if r = "e" then pure (s, (none : Option TimeV))
    else if r = "z" then pure (s, some TimeV.zeroTime)
    else do
      let tag ← pStr
      pure (s, some { zero := false, tag := tag }))
  let f ← pTok
  if f ≠ "F" then failure
  let fmts ← pList (do
    let tag ← pStr; let fm ← pStr; let out ← pStr
    pure ((tag, fm), out))
  pure {
    parse := fun s => (parses.find? (fun e => e.1 = s)).bind (·.2)
    format := fun t fm => (fmts.find? (fun e => e.1 = (t.tag, fm))).map (·.2) }

def pNamedValue : P (Str × Value) := do
  let n ← pStr
  let v ← pValue
  pure (n, v)

/-! ### rendering -/

def hexDigit (n : Nat) : Char :=
  if n < 10 then Char.ofNat (48 + n) else Char.ofNat (55 + n)

/-- the Go side's `Q` encoding -/
def q (s : Str) : String :=
  if s.isEmpty then "%-" else
  let bytes := (String.ofList s).toUTF8.toList
  String.ofList (bytes.flatMap fun b =>
    let n := b.toNat
    let c := Char.ofNat n
    if ('a' ≤ c ∧ c ≤ 'z') ∨ ('A' ≤ c ∧ c ≤ 'Z') ∨ ('0' ≤ c ∧ c ≤ '9') ∨
       c = '_' ∨ c = '.' ∨ c = '/' ∨ c = ':' ∨ c = '-' ∨ c = '+' ∨ c = ',' ∨ c = '=' then [c]
    else ['%', hexDigit (n / 16), hexDigit (n % 16)])

def errName : EvalErr → String
  | .invalid => "invalid"
  | .required => "required"
  | .notSupported => "unsupported"

def showEval : Except EvalErr Str → String
  | .ok s => "ok " ++ q s
  | .error e => errName e

def sortKV (m : List (Str × Str)) : List (Str × Str) := sortByKey m

def showMap (m : List (Str × Str)) : String :=
  let m := sortKV m
  toString m.length ++ String.join (m.map fun e => " " ++ q e.1 ++ " " ++ q e.2)

/-! ### the set of results over all iteration orders -/

def picks {α : Type} : List α → List (α × List α)
  | [] => []
  | x :: xs => (x, xs) :: (picks xs).map fun p => (p.1, x :: p.2)

def dedup (xs : List Str) : List Str :=
  xs.foldl (fun acc x => if acc.contains x then acc else acc ++ [x]) []

/-- results of `substFold` over every order of `es` -/
def allOrders : Nat → List (Str × Str) → Str → List Str
  | 0, _, t => [t]
  | _ + 1, [], t => [t]
  | f + 1, es, t =>
    dedup ((picks es).flatMap fun p => allOrders f p.2 (replaceAll t (mkPattern p.1.1) p.1.2))

/-- results the implementation may produce for one `SubstituteVariables` call -/
def possibleSubst (cls : Bool) (es : List (Str × Str)) (t : Str) : List Str :=
  if Facts.substSortsKeys then [substituteVariables true t es]
  else if cls then [substituteVariables false t es]
  else allOrders es.length es t

/-- results the implementation may produce for one `SubstituteVariableMaps` call -/
def possibleMaps (cls : Bool) (maps : List (List (Str × Str))) (prefixes : List Str) (t : Str) : List Str :=
  let pre := maps.foldl (fun (S : List Str) m => dedup (S.flatMap (possibleSubst cls m))) [t]
  dedup (pre.map fun s => substituteEmptyStringForPrefixes s prefixes)

def judge (possible observed : List Str) : String :=
  if observed.all possible.contains then "ok"
  else "bad" ++ String.join (possible.map fun s => " " ++ q s)

/-! ### ops -/

def showBoolCfg : Option BoolCfg → String
  | none => "-"
  | some b => s!"{b01 b.default} {q b.format} {q b.trueVal} {q b.falseVal}"

def pJobCtx : P JobCtx := do
  let uid ← pStr; let name ← pStr; let ns ← pStr; let ty ← pStr; let ma ← pOptInt
  pure { uid := uid, name := name, namespace_ := ns, type := ty, maxAttempts := ma }

def pTaskCtx : P TaskCtx := do
  let name ← pStr; let ns ← pStr; let retry ← pInt; let num ← pOptInt; let key ← pStr
  let matrix ← pList pKV
  pure { name := name, namespace_ := ns, retryIndex := retry, indexNumber := num, indexKey := key,
         matrixValues := matrix }

def pField : P (Str × List Str) := do
  let f ← pStr
  let obs ← pList pStr
  pure (f, obs)

def runOp (op : String) : P String := do
  match op with
  | "opt.eval" =>
    let o ← pOpt; let v ← pValue; let D ← pOracle
    pure (showEval (evaluateOption D v o))
  | "opt.default" =>
    let o ← pOpt
    pure (match evaluateOptionDefault o with | some s => "ok " ++ q s | none => "err")
  | "opt.validate" =>
    let o ← pOpt
    pure (toString (validateOption o))
  | "opt.validatespec" =>
    let s ← pSpec
    pure (toString (validateOptionSpec s))
  | "opt.defaulting" =>
    let o ← pOpt
    pure (showBoolCfg (defaultingOption o).bool)
  | "opt.evalall" =>
    let s ← pSpec; let vals ← pList pNamedValue; let D ← pOracle
    let (m, errs) := evaluateOptions D vals s
    pure (showMap m ++ " | " ++ toString errs.length ++ String.join (errs.map fun e => " " ++ errName e))
  | "opt.defaults" =>
    let s ← pSpec
    pure (match makeDefaultOptions s with | some m => "ok " ++ showMap m | none => "err")
  | "opt.merge" =>
    let maps ← pList (pList pKV)
    pure (showMap (mergeSubstitutions maps))
  | "opt.replace" =>
    let s ← pStr; let old ← pStr; let new ← pStr
    pure (q (replaceAll s old new))
  | "opt.chain" =>
    let t ← pStr; let es ← pList pKV; let ps ← pList pStr
    pure (q (substituteVariableMaps false t (es.map fun e => [e]) ps))
  | "opt.rmprefix" =>
    let t ← pStr; let ps ← pList pStr
    pure (q (substituteEmptyStringForPrefixes t ps))
  | "opt.subst" =>
    let cls ← pBool; let t ← pStr; let es ← pList pKV; let obs ← pList pStr
    pure (judge (possibleSubst cls es t) obs)
  | "opt.substmaps" =>
    let cls ← pBool; let t ← pStr; let maps ← pList (pList pKV); let ps ← pList pStr
    let obs ← pList pStr
    pure (judge (possibleMaps cls maps ps t) obs)
  | "opt.pod" =>
    let cls ← pBool; let jc ← pJobCtx; let tc ← pTaskCtx; let subs ← pList pKV
    let fields ← pList pField
    let maps := podSubMaps subs (jobVariables jc) (taskVariables tc)
    let bad := fields.filter fun f => !(f.2.all (possibleMaps cls maps podRemovePrefixes f.1).contains)
    pure (match bad with
      | [] => "ok"
      | f :: _ => "bad " ++ q f.1 ++ String.join ((possibleMaps cls maps podRemovePrefixes f.1).map fun s => " " ++ q s))
  | "opt.admit" =>
    let uid ← pStr; let name ← pStr; let ns ← pStr
    let s ← pSpec; let vals ← pList pNamedValue; let D ← pOracle; let explicit ← pList pKV
    let (m, errs) := evaluateOptions D vals s
    if errs.isEmpty then
      pure ("ok " ++ showMap (admissionSubstitutions
        (jobConfigVariables { uid := uid, name := name, namespace_ := ns }) m explicit))
    else
      pure ("rejected " ++ toString errs.length ++ String.join (errs.map fun e => " " ++ errName e))
  | _ => failure

def optionsStep (t : List String) : String :=
  match t with
  | [] => "bad-op"
  | op :: rest =>
    match (runOp op).run rest with
    | some (out, []) => out
    | some (_, _ :: _) => "bad-op trailing"
    | none => "bad-op"

end Furiko.Driver.OptionsD

namespace Furiko.Driver
/-- entry point registered in `Main.lean` (everything else lives in `Furiko.Driver.OptionsD`) -/
def optionsStep (t : List String) : String := OptionsD.optionsStep t
end Furiko.Driver
