import FurikoModel.Model.CronRec
import FurikoModel.Driver.Proto
/-! Line-protocol driver of the `cronrec` engine (C02). -/
namespace Furiko.Driver
open Furiko Furiko.Str Furiko.CronRec

structure CronRecDS where
  maxEnq   : Option Int := some Facts.defaultMaxEnqueuedJobs
  defs     : List (Nat × JobConfig) := []
  jcCache  : List JobConfig := []
  jobCache : List (Str × Str) := []
  api      : Api := []
  active   : List (Str × Int) := []

instance : Inhabited CronRecDS := ⟨{}⟩

def hexDigit (n : Nat) : Char := if n < 10 then Char.ofNat (48 + n) else Char.ofNat (55 + n)

/-- the Go side's `Q` encoding (on UTF-8 bytes) -/
def qBytes (bs : List UInt8) : List Char :=
  bs.flatMap fun b =>
    let c := Char.ofNat b.toNat
    if ('a' ≤ c ∧ c ≤ 'z') ∨ ('A' ≤ c ∧ c ≤ 'Z') ∨ ('0' ≤ c ∧ c ≤ '9') ∨
       c = '_' ∨ c = '.' ∨ c = '/' ∨ c = ':' ∨ c = '-' ∨ c = '+' ∨ c = ',' ∨ c = '=' then [c]
    else ['%', hexDigit (b.toNat / 16), hexDigit (b.toNat % 16)]

def qS (s : Str) : String :=
  if s.isEmpty then "%-" else String.ofList (qBytes (String.ofList s).toUTF8.toList)

/-- `Q` plus escaping of `,` `=` `:` `;` (used inside key=value lists and owner references) -/
def qI (s : Str) : String :=
  (((qS s).replace "," "%2C").replace "=" "%3D").replace ":" "%3A"

def us (t : String) : Str := (unq t).toList

def parseKV (t : String) : KV :=
  if t = "-" then []
  else (t.splitOn ",").filterMap fun e =>
    match e.splitOn "=" with
    | [k, v] => some (us k, us v)
    | _ => none

def sortKV (m : KV) : KV :=
  m.mergeSort (fun a b => !(String.ofList b.1 < String.ofList a.1))

def showKV (m : KV) : String :=
  if m.isEmpty then "-" else ",".intercalate ((sortKV m).map fun (k, v) => qI k ++ "=" ++ qI v)

def showOwner (o : OwnerRef) : String :=
  s!"{qI o.kind}:{qI o.name}:{qI o.uid}:{b01 o.controller}:{b01 o.blockOwnerDeletion}"

def showJob (j : Job) : String :=
  let fin := if j.finalizers.isEmpty then "-" else ",".intercalate (j.finalizers.map qI)
  let own := if j.owners.isEmpty then "-" else ";".intercalate (j.owners.map showOwner)
  let pol := match j.startPolicy with | none => "-" | some p => qS p
  s!"{qS j.ns} {qS j.name} L={showKV j.labels} A={showKV j.annots} F={fin} O={own} T={qS j.jobType} P={pol} S={showKV j.subst} M={showOptInt j.tmpl}"

def parseInject (t : String) : Inject :=
  if t = "err" then .err else if t = "invalid" then .invalid else if t = "errApplied" then .errApplied else .none

def showResult : Result → String
  | .ok => "ok" | .invalid => "invalid" | .err => "err"
def showResp : Option Resp → String
  | none => "-" | some .ok => "ok" | some .exists => "exists" | some .invalid => "invalid" | some .err => "err"
def showEvent : Event → String
  | .skipped => "skipped" | .created => "created" | .createFailed => "createFailed"
def showEvents (l : List Event) : String := if l.isEmpty then "-" else ",".intercalate (l.map showEvent)

def showSync (o : SyncOut) : String :=
  let call := match o.call with | none => "-" | some j => showJob j
  s!"{showResult o.result} ev={showEvents o.events} resp={showResp o.resp} call={call}"

def CronRecDS.activeOf (s : CronRecDS) (c : JobConfig) : Int :=
  match s.active.find? (·.1 = c.uid) with | some e => e.2 | none => 0

def CronRecDS.def? (s : CronRecDS) (id : String) : Option JobConfig :=
  (s.defs.find? (·.1 = nat! id)).map (·.2)

def sameStoreKey (a b : JobConfig) : Bool := metaNsKey a.ns a.name = metaNsKey b.ns b.name

def cronRecStep (s : CronRecDS) (t : List String) : CronRecDS × String :=
  match t with
  | ["cronrec.parseunix", x] =>
    (s, match parseUnix (us x) with | none => "err" | some n => s!"ok {n}")
  | ["cronrec.split", k] =>
    (s, match splitKey (us k) with
        | .error .badKey => "badkey"
        | .error .badTs => "badts"
        | .ok (n, ts) => s!"ok {qS n} {ts}")
  | ["cronrec.join", k, ts] => (s, qS (joinKey (us k) (int! ts)))
  | ["cronrec.keyfunc", ns, n, ts] => (s, qS (jobConfigKey (us ns) (us n) (int! ts)))
  | ["cronrec.nssplit", k] =>
    (s, match splitNsKey (us k) with | none => "err" | some (ns, n) => s!"ok {qS ns} {qS n}")
  | ["cronrec.genname", n, ts, now] => (s, qS (generateName (int! now) (us n) (int! ts)))
  | ["cronrec.reset", mx] =>
    ({ maxEnq := some ((optInt mx).getD Facts.defaultMaxEnqueuedJobs) }, "ok")
  | ["cronrec.jc", id, ns, n, uid, pol, mc, queued, labels, annots, subst, tmpl] =>
    let c : JobConfig := {
      ns := us ns, name := us n, uid := us uid, policy := us pol, maxConc := optInt mc, queued := int! queued,
      tmplLabels := parseKV labels, tmplAnnots := parseKV annots,
      subst := if subst = "err" then none else some (parseKV subst), tmpl := optInt tmpl }
    ({ s with defs := (nat! id, c) :: s.defs.filter (·.1 ≠ nat! id) }, "ok")
  | ["cronrec.newjob", id, ty, ts, now] =>
    match s.def? id with
    | none => (s, "bad-op")
    | some c =>
      (s, match newJobFromJobConfig (int! now) c (us ty) (int! ts) with
          | none => "err"
          | some j => showJob j)
  | ["cronrec.jcset", id] =>
    match s.def? id with
    | none => (s, "bad-op")
    | some c => ({ s with jcCache := c :: s.jcCache.filter (fun x => !sameStoreKey x c) }, "ok")
  | ["cronrec.jcdel", id] =>
    match s.def? id with
    | none => (s, "bad-op")
    | some c => ({ s with jcCache := s.jcCache.filter (fun x => !sameStoreKey x c) }, "ok")
  | ["cronrec.active", uid, n] =>
    ({ s with active := (us uid, int! n) :: s.active.filter (·.1 ≠ us uid) }, "ok")
  | ["cronrec.sync", ns, n, inj, now] =>
    let o := syncOne (int! now) s.api (listerGet s.jcCache) s.activeOf s.maxEnq (jobLister s.jobCache)
              (parseInject inj) (us ns) (us n)
    ({ s with api := o.api }, showSync o)
  | ["cronrec.item", k, inj, now] =>
    let o := syncItem (int! now) s.api (listerGet s.jcCache) s.activeOf s.maxEnq (jobLister s.jobCache)
              (parseInject inj) (us k)
    ({ s with api := o.api }, showSync o)
  | ["cronrec.deliver", ns, n] =>
    if s.api.has (us ns) (us n) then
      ({ s with jobCache := (us ns, us n) :: s.jobCache.filter (· ≠ (us ns, us n)) }, "ok")
    else (s, "nojob")
  | ["cronrec.undeliver", ns, n] =>
    ({ s with jobCache := s.jobCache.filter (· ≠ (us ns, us n)) }, "ok")
  | ["cronrec.jobcache.clear"] => ({ s with jobCache := [] }, "ok")
  | ["cronrec.jobdel", ns, n] =>
    if s.api.has (us ns) (us n) then
      ({ s with api := s.api.filter (fun j => ¬ (j.ns = us ns ∧ j.name = us n)) }, "ok")
    else (s, "notfound")
  | ["cronrec.dump"] =>
    let rows := s.api.map fun j =>
      s!"{qI j.ns}/{qI j.name}|{match j.ownerUid with | none => "-" | some u => qI u}|{match j.schedAnnot with | none => "-" | some a => qI a}"
    (s, if rows.isEmpty then "-" else " ".intercalate (rows.mergeSort (fun a b => !(b < a))))
  | _ => (s, "bad-op")

end Furiko.Driver
