import FurikoModel.Model.Heap
import FurikoModel.Driver.Proto
namespace Furiko.Driver
open Furiko

def peekStr (pq : Heap.PQ) : String :=
  match Heap.peek pq with
  | none => "none"
  | some it => s!"{it.name}:{it.prio}"

def heapStep (pq : Heap.PQ) (t : List String) : Heap.PQ × String :=
  match t with
  | "heap.new" :: items =>
    let its := items.map fun s =>
      match s.splitOn ":" with
      | [n, p] => (n, int! p)
      | _ => (s, 0)
    let pq' := Heap.new its
    (pq', s!"{pq'.len} {peekStr pq'}")
  | ["heap.push", n, p] =>
    let pq' := Heap.push pq n (int! p)
    (pq', s!"{pq'.len} {peekStr pq'}")
  | ["heap.pop"] =>
    match Heap.pop pq with
    | none => (pq, "empty")
    | some (pq', it) => (pq', s!"{it.name}:{it.prio} {pq'.len} {peekStr pq'}")
  | ["heap.search", n] =>
    (pq, match Heap.search pq n with | none => "none" | some p => toString p)
  | ["heap.update", n, p] =>
    let (pq', ok) := Heap.update pq n (int! p)
    (pq', s!"{b01 ok} {pq'.len} {peekStr pq'}")
  | ["heap.delete", n] =>
    let (pq', ok) := Heap.delete pq n
    (pq', s!"{b01 ok} {pq'.len} {peekStr pq'}")
  | _ => (pq, "bad-op")

end Furiko.Driver
