/-
Line-protocol driver of the `admission` engine (ops `adm.*`), see harness/eng/admission.go for
the wire format.  Stateless: every op line carries the clock, the dynamic configuration, the
JobConfig cache, the request object(s) and the oracle tables it needs.

  MAP      := <n> (<key> <value>)*                      (sorted by key)
  OPTI     := - | <int>            OPTB := - | 0 | 1
  OWN      := <apiVersion> <kind> <name> <uid> OPTB(controller) OPTB(blockOwnerDeletion)
  TEMPLATE := (p- | p+ <restartPolicy> <rest>) (r- | r+ <completionStrategy> <rest>)
              OPTI(maxAttempts) OPTI(retryDelaySeconds) OPTI(taskPendingTimeoutSeconds) <forbid01>
  JOB      := J <namespace> <createUnix> <rest> F <n> <finalizer>* L MAP A MAP O <n> OWN*
              <configName> <type> (sp- | sp+ <concurrencyPolicy> OPTI(startAfter))
              (t- | t+ TEMPLATE) <optionValues> S MAP OPTI(ttl)
  SCHED    := s- | s+ (c- | c+ <expression> <n> <expressions>* <timezone>) <disabled01>
              (k- | k+ OPTI(notBefore) OPTI(notAfter)) OPTI(lastUpdated)
  JC       := C <namespace> <name> <uid> <rest> L MAP A MAP TEMPLATE <policy> SCHED SPEC <optionHash>
  ENV      := <nowNs> <cfgOk01> OPTI(defaultTTL) OPTI(defaultPendingTimeout)
  OVT      := V <n> (<string> (e | p <normalised> <n> (<name> VAL)*))*
  (SPEC, VAL, ORACLE as in Driver/OptionsD.lean)

  adm.job.create ENV <n> JC* JOB OVT ORACLE   → ok <nw> <warning>* JOB | rejected <n> <kind>*
  adm.job.update ENV JOB                      → same
  adm.jc.create  ENV JC                       → ok JC | rejected <n> <kind>*
  adm.jc.update  ENV JC(old) JC(new)          → same
-/
import FurikoModel.Model.Mutation
import FurikoModel.Driver.OptionsD

namespace Furiko.Driver.MutationD
open Furiko Furiko.Driver Furiko.Options Furiko.Mutation Furiko.Driver.OptionsD

/-! ### parsing -/

def pOptBool : P (Option Bool) := do
  let t ← pTok
  if t = "-" then pure none else pure (some (t = "1"))

def pExpect (s : String) : P Unit := do
  let t ← pTok
  if t = s then pure () else failure

def pOwner : P OwnerRef := do
  let av ← pStr; let k ← pStr; let n ← pStr; let u ← pStr
  let c ← pOptBool; let b ← pOptBool
  pure { apiVersion := av, kind := k, name := n, uid := u, controller := c, blockOwnerDeletion := b }

def pTemplate : P JobTemplate := do
  let p ← pTok
  let pod ← if p = "p+" then do
      let r ← pStr; let rest ← pStr
      pure (some ({ restartPolicy := r, rest := rest } : PodTemplate))
    else pure none
  let r ← pTok
  let par ← if r = "r+" then do
      let s ← pStr; let rest ← pStr
      pure (some ({ completionStrategy := s, rest := rest } : Parallelism))
    else pure none
  let ma ← pOptInt; let rd ← pOptInt; let pt ← pOptInt; let fb ← pBool
  pure { pod := pod, parallelism := par, maxAttempts := ma, retryDelaySeconds := rd,
         pendingTimeout := pt, forbidForceDeletion := fb }

def pJob : P Job := do
  pExpect "J"
  let ns ← pStr; let ct ← pInt; let rest ← pStr
  pExpect "F"
  let fins ← pList pStr
  pExpect "L"
  let labels ← pList pKV
  pExpect "A"
  let anns ← pList pKV
  pExpect "O"
  let owners ← pList pOwner
  let cn ← pStr; let ty ← pStr
  let sp ← pTok
  let startPolicy ← if sp = "sp+" then do
      let cp ← pStr; let sa ← pOptInt
      pure (some ({ concurrencyPolicy := cp, startAfter := sa } : StartPolicy))
    else pure none
  let t ← pTok
  let template ← if t = "t+" then do
      let tm ← pTemplate
      pure (some tm)
    else pure none
  let ov ← pStr
  pExpect "S"
  let subs ← pList pKV
  let ttl ← pOptInt
  pure { namespace_ := ns, createTime := ct, finalizers := fins, labels := labels, annotations := anns,
         owners := owners, configName := cn, type_ := ty, startPolicy := startPolicy,
         template := template, optionValues := ov, substitutions := subs, ttl := ttl, rest := rest }

def pSchedule : P (Option Schedule) := do
  let s ← pTok
  if s ≠ "s+" then pure none else
  let c ← pTok
  let cron ← if c = "c+" then do
      let e ← pStr; let es ← pList pStr; let tz ← pStr
      pure (some ({ expression := e, expressions := es, timezone := tz } : Cron))
    else pure none
  let dis ← pBool
  let k ← pTok
  let cons ← if k = "k+" then do
      let nb ← pOptInt; let na ← pOptInt
      pure (some ({ notBefore := nb, notAfter := na } : Constraints))
    else pure none
  let lu ← pOptInt
  pure (some { cron := cron, disabled := dis, constraints := cons, lastUpdated := lu })

def pJobConfig : P JobConfig := do
  pExpect "C"
  let ns ← pStr; let name ← pStr; let uid ← pStr; let rest ← pStr
  pExpect "L"
  let labels ← pList pKV
  pExpect "A"
  let anns ← pList pKV
  let tmpl ← pTemplate
  let policy ← pStr
  let sched ← pSchedule
  let spec ← pSpec
  let hash ← pStr
  pure { namespace_ := ns, name := name, uid := uid, tmplLabels := labels, tmplAnnotations := anns,
         template := tmpl, policy := policy, schedule := sched, option := spec, optionHash := hash,
         rest := rest }

def pOVTable : P (Str → Option OVParse) := do
  pExpect "V"
  let entries ← pList (do
    let s ← pStr
    let r ← pTok
    if r = "e" then pure (s, (none : Option OVParse))
    else do
      let norm ← pStr
      let vals ← pList pNamedValue
      pure (s, some { normalised := norm, values := vals }))
  pure fun s => (entries.find? (fun e => e.1 = s)).bind (·.2)

structure EnvHead where
  nowNs : Int
  cfg : Cfg

def pEnvHead : P EnvHead := do
  let now ← pInt
  let ok ← pBool; let ttl ← pOptInt; let pend ← pOptInt
  pure { nowNs := now, cfg := { ok := ok, defaultTTL := ttl, defaultPendingTimeout := pend } }

def noOracle : DateOracle := { parse := fun _ => none, format := fun _ _ => none }

def EnvHead.env (h : EnvHead) (store : List JobConfig := []) (parseOV : Str → Option OVParse := fun _ => none)
    (date : DateOracle := noOracle) : Env :=
  { nowNs := h.nowNs, cfg := h.cfg, store := store, parseOV := parseOV, date := date }

/-! ### rendering -/

def showMap (m : SMap) : String :=
  let m := canon m
  toString m.length ++ String.join (m.map fun e => " " ++ q e.1 ++ " " ++ q e.2)

def showOptB : Option Bool → String
  | none => "-"
  | some b => b01 b

def showStrs (xs : List Str) : String :=
  toString xs.length ++ String.join (xs.map fun x => " " ++ q x)

def showOwner (r : OwnerRef) : String :=
  s!"{q r.apiVersion} {q r.kind} {q r.name} {q r.uid} {showOptB r.controller} {showOptB r.blockOwnerDeletion}"

def showTemplate (t : JobTemplate) : String :=
  (match t.pod with
   | some p => s!"p+ {q p.restartPolicy} {q p.rest}"
   | none => "p-") ++ " " ++
  (match t.parallelism with
   | some p => s!"r+ {q p.completionStrategy} {q p.rest}"
   | none => "r-") ++
  s!" {showOptInt t.maxAttempts} {showOptInt t.retryDelaySeconds} {showOptInt t.pendingTimeout} {b01 t.forbidForceDeletion}"

def showJob (j : Job) : String :=
  s!"J {q j.namespace_} {j.createTime} {q j.rest} F {showStrs j.finalizers} L {showMap j.labels} A {showMap j.annotations} O {j.owners.length}" ++
  String.join (j.owners.map fun r => " " ++ showOwner r) ++
  s!" {q j.configName} {q j.type_} " ++
  (match j.startPolicy with
   | some sp => s!"sp+ {q sp.concurrencyPolicy} {showOptInt sp.startAfter}"
   | none => "sp-") ++ " " ++
  (match j.template with
   | some t => "t+ " ++ showTemplate t
   | none => "t-") ++
  s!" {q j.optionValues} S {showMap j.substitutions} {showOptInt j.ttl}"

def showSchedule : Option Schedule → String
  | none => "s-"
  | some s =>
    "s+ " ++
    (match s.cron with
     | some c => s!"c+ {q c.expression} {showStrs c.expressions} {q c.timezone}"
     | none => "c-") ++ s!" {b01 s.disabled} " ++
    (match s.constraints with
     | some k => s!"k+ {showOptInt k.notBefore} {showOptInt k.notAfter}"
     | none => "k-") ++ s!" {showOptInt s.lastUpdated}"

def showBoolCfg' : Option BoolCfg → String
  | none => "b-"
  | some c => s!"b+ {b01 c.default} {q c.format} {q c.trueVal} {q c.falseVal}"

def showTypeName : OptType → String
  | .bool => "Bool" | .string => "String" | .select => "Select" | .multi => "Multi" | .date => "Date"
  | .unknown _ => "?"

/-- an option as the Go side's `optTok`, except that a type outside the five known ones is `?` -/
def showOpt (o : Opt) : String :=
  s!"O {showTypeName o.type} {q o.name} {q o.label} {b01 o.required} {showBoolCfg' o.bool} " ++
  (match o.string with
   | some c => s!"s+ {q c.default} {b01 c.trimSpaces}"
   | none => "s-") ++ " " ++
  (match o.select with
   | some c => s!"e+ {q c.default} {b01 c.allowCustom} {showStrs c.values}"
   | none => "e-") ++ " " ++
  (match o.multi with
   | some c => s!"m+ {q c.delimiter} {b01 c.allowCustom} {showStrs c.default} {showStrs c.values}"
   | none => "m-") ++ " " ++
  (match o.date with
   | some c => s!"d+ {q c.format}"
   | none => "d-")

def showSpec : Option (List Opt) → String
  | none => "-"
  | some os => toString os.length ++ String.join (os.map fun o => " " ++ showOpt o)

def showJobConfig (c : JobConfig) : String :=
  s!"C {q c.namespace_} {q c.name} {q c.uid} {q c.rest} L {showMap c.tmplLabels} A {showMap c.tmplAnnotations} " ++
  showTemplate c.template ++ s!" {q c.policy} " ++ showSchedule c.schedule ++ " " ++ showSpec c.option

def errName : AdmErr → String
  | .notFound => "notfound" | .internal => "internal" | .duplicate => "duplicate"
  | .required => "required" | .invalid => "invalid" | .notSupported => "unsupported"

def warnName : Warn → String
  | .templateOverwritten => "tmpl" | .optionValuesIgnored => "ovignored"

def showRejected (errs : List AdmErr) : String :=
  "rejected " ++ toString errs.length ++ String.join (errs.map fun e => " " ++ errName e)

def showJobResult (r : Result Job) : String :=
  if r.errors = [] then
    "ok " ++ toString r.warnings.length ++ String.join (r.warnings.map fun w => " " ++ warnName w) ++ " " ++ showJob r.obj
  else showRejected r.errors

def showJobConfigResult (r : Result JobConfig) : String :=
  if r.errors = [] then "ok " ++ showJobConfig r.obj else showRejected r.errors

/-! ### ops -/

def runOp (op : String) : P String := do
  match op with
  | "adm.job.create" =>
    let h ← pEnvHead
    let store ← pList pJobConfig
    let j ← pJob
    let ovt ← pOVTable
    let D ← pOracle
    pure (showJobResult (patchCreateJob (h.env store ovt D) j))
  | "adm.job.update" =>
    let h ← pEnvHead
    let j ← pJob
    pure (showJobResult (patchUpdateJob h.env j))
  | "adm.jc.create" =>
    let h ← pEnvHead
    let c ← pJobConfig
    pure (showJobConfigResult (patchCreateJobConfig h.env c))
  | "adm.jc.update" =>
    let h ← pEnvHead
    let old ← pJobConfig
    let c ← pJobConfig
    pure (showJobConfigResult (patchUpdateJobConfig h.env old c))
  | _ => failure

def mutationStep (t : List String) : String :=
  match t with
  | [] => "bad-op"
  | op :: rest =>
    match (runOp op).run rest with
    | some (out, []) => out
    | some (_, _ :: _) => "bad-op trailing"
    | none => "bad-op"

end Furiko.Driver.MutationD

namespace Furiko.Driver
/-- entry point registered in `Main.lean` -/
def mutationStep (t : List String) : String := MutationD.mutationStep t
end Furiko.Driver
