/-
Driver of engine `taskfn` (pure function layer under the job controller) and the reusable
textual codec for TaskRef / Task / Pod / Job / status values.  Core Lean only.

ENCODING (one value = one protocol token unless stated; tokens never contain spaces)
  time     := <int, Unix nanoseconds> | -          (nil pointer / zero time = -)
  oint     := <int> | -
  str      := Go side `Q(...)` percent-encoding (`%-` = empty); decoded with `Proto.unq`
  pidx     := - | <hash>@<str val>                 (- only where the Go field is a nil pointer)
  tstate   := St | Ru | Ki | Te | Dl | -           Starting Running Killing Terminated DeletedFinalStateUnknown ""
  tres     := S | F | K | -                        Succeeded Failed Killed ""
  status   := <tstate>^<tres>^<str reason>
  dstatus  := ~ | <status>                         (~ = nil DeletedStatus)
  ref      := <str name>;<time creation>;<time running>;<time finish>;<int retry>;<pidx>;<status>;<dstatus>
  refs     := - | <ref>#<ref>#…
  task     := <str GetName()>;<time deletion>;<the 8 fields of GetTaskRef()>           (10 fields)
  tasks    := - | <task>#<task>#…
  term     := ~ | <time startedAt>&<time finishedAt>&<str reason>
  cont     := <~ | time (State.Running.StartedAt)>*<term State.Terminated>*<term LastTerminationState.Terminated>
  pod      := <str name>;<time creation>;<time deletion>;<P|R|S|F|U|O phase>;<time status.startTime>;
              <str status.reason>;<oint activeDeadlineSeconds>;<oint GetRetryIndex>;<pidx GetParallelIndex>;
              <0|1 IsPodConditionScheduled>;<str reason of GetReasonMessage>;<- | cont!cont!…>      (12 fields)
  istate   := NC | RB | St | Ru | Te | -           IndexNotCreated RetryBackoff Starting Running Terminated ""
  istatus  := <pidx>*<str hash>*<int createdTasks>*<istate>*<tres>
  pstatus  := ~ | <0|1 complete>|<-|0|1 successful>|<- | istatus!istatus!…>
  cond     := <q>|<w>|<r>|<f>     each ~ when nil;
              q := - | ND | Qd   (reason "", NotYetDue, Queued)
              w := - | DT | PC | RB | WT   (reason "", DeletingTasks, PendingCreation, RetryBackoff, WaitingForTasks)
              r := <time latestCreation>:<time latestRunning>:<int terminatingTasks>
              f := <time latestCreation>:<time latestRunning>:<time finish>:<Su|Fa|AE|Ki|FU|- result>
  jstate   := Q | W | R | F | -
  job      := 20 consecutive tokens:
              <~|T template> <~ | - | All | Any | Oth  parallelism (nil) / completion strategy>
              <- | pidx#pidx#…  GenerateIndexes(template.Parallelism)> <oint maxAttempts> <oint retryDelaySeconds>
              <oint taskPendingTimeoutSeconds> <0|1 forbidTaskForceDeletion> <time killTimestamp>
              <oint ttlSecondsAfterFinished> <0|1 admission-error annotation> <time deletionTimestamp>
              <~ | <time startAfter>:<0|1 concurrencyPolicy==Enqueue>  startPolicy> <time status.startTime>
              <str status.phase> <jstate> <cond> <int createdTasks> <int runningTasks> <refs status.tasks> <pstatus>
  req      := <pidx>*<int retryIndex>*<int earliest>   (earliest in ns; Go zero time = -62135596800000000000)

OPS (state: virtual clock + default index)
  taskfn.env <int now> <pidx GetDefaultIndex>            -> ok
  taskfn.pod <pod>                                       -> <tstate> <tres> <time running> <time finish | panic> <0|1 killWithDeletion> <ref | panic>
  taskfn.gettaskref <ref | ~> <task>                     -> <ref>
  taskfn.genrefs <refs> <tasks>                          -> <refs>
  taskfn.updrefs <refs> <tasks>                          -> <created> <running> <refs>
  taskfn.delstatus <refs> <str name> <status>            -> <refs>
  taskfn.sort <refs>                                     -> <refs>
  taskfn.counters <- | istatus!…>                        -> created starting running retryBackoff terminated succeeded failed
  taskfn.summary <job>                                   -> <0|1 complete> <-|0|1 successful>
  taskfn.pstatus <job>                                   -> <pstatus>
  taskfn.missing <job> <- | pidx#…>                      -> panic | - | req#req…
  taskfn.cond <job>                                      -> <cond>
  taskfn.phase <job>                                     -> <str phase>
  taskfn.update <job>                                    -> panic | <jstate> <str phase> <cond> <pstatus>
  taskfn.flags <job>                                     -> <started> <queued> <active> <phaseTerminal>
  taskfn.timeouts <job> <oint cfgTTL> <oint cfgPending> <oint cfgForce>  -> <pending ns | panic> <force ns> <ttl ns>
-/
import FurikoModel.Model.JobStatus
import FurikoModel.Driver.Proto
namespace Furiko.Driver
open Furiko

-- ---------------------------------------------------------------- encoders

/-- inverse of `unq` for output: the Go side's `Q` -/
def qEnc (s : String) : String :=
  if s.isEmpty then "%-" else
  let hex (n : Nat) : Char := if n < 10 then Char.ofNat (48 + n) else Char.ofNat (55 + n)
  s.toUTF8.toList.foldl (fun acc b =>
    let ch := Char.ofNat b.toNat
    if ('a' ≤ ch ∧ ch ≤ 'z') ∨ ('A' ≤ ch ∧ ch ≤ 'Z') ∨ ('0' ≤ ch ∧ ch ≤ '9') ∨
       ch = '_' ∨ ch = '.' ∨ ch = '/' ∨ ch = ':' ∨ ch = '-' ∨ ch = '+' ∨ ch = ',' ∨ ch = '=' then acc.push ch
    else (acc.push '%').push (hex (b.toNat / 16)) |>.push (hex (b.toNat % 16))) ""

def encTime : Option Time → String := showOptInt
def encPIndexV (i : PIndex) : String := s!"{i.hash}@{qEnc i.val}"
def encPIndex : Option PIndex → String
  | none => "-"
  | some i => encPIndexV i

def encTState : TaskState → String
  | .starting => "St" | .running => "Ru" | .killing => "Ki" | .terminated => "Te"
  | .deletedFinalStateUnknown => "Dl" | .empty => "-"
def encTRes : TaskResult → String
  | .succeeded => "S" | .failed => "F" | .killed => "K" | .none => "-"
def encStatus (s : TaskStatus) : String := s!"{encTState s.state}^{encTRes s.result}^{qEnc s.reason}"
def encDStatus : Option TaskStatus → String
  | none => "~"
  | some s => encStatus s

def encTaskRef (r : TaskRef) : String :=
  s!"{qEnc r.name};{encTime r.creationTimestamp};{encTime r.runningTimestamp};{encTime r.finishTimestamp};{r.retryIndex};{encPIndex r.parallelIndex};{encStatus r.status};{encDStatus r.deletedStatus}"

def encList {α} (f : α → String) (sep : String) (l : List α) : String :=
  if l.isEmpty then "-" else sep.intercalate (l.map f)

def encTaskRefs (l : List TaskRef) : String := encList encTaskRef "#" l

def encIState : IndexState → String
  | .notCreated => "NC" | .retryBackoff => "RB" | .starting => "St" | .running => "Ru"
  | .terminated => "Te" | .empty => "-"
def encIndexStatus (s : IndexStatus) : String :=
  s!"{encPIndexV s.index}*{qEnc s.hash}*{s.createdTasks}*{encIState s.state}*{encTRes s.result}"
def encOptBool : Option Bool → String
  | none => "-" | some b => b01 b
def encPStatus : Option ParallelStatus → String
  | none => "~"
  | some p => s!"{b01 p.summary.complete}|{encOptBool p.summary.successful}|{encList encIndexStatus "!" p.indexes}"

def encJobResult : JobResult → String
  | .success => "Su" | .failed => "Fa" | .admissionError => "AE" | .killed => "Ki"
  | .finalStateUnknown => "FU" | .other => "-"
def encCondition (c : Condition) : String :=
  let q := match c.queueing with
    | none => "~" | some .none => "-" | some .notYetDue => "ND" | some .queued => "Qd"
  let w := match c.waiting with
    | none => "~" | some .none => "-" | some .deletingTasks => "DT" | some .pendingCreation => "PC"
    | some .retryBackoff => "RB" | some .waitingForTasks => "WT"
  let r := match c.running with
    | none => "~"
    | some r => s!"{encTime r.latestCreationTimestamp}:{encTime r.latestRunningTimestamp}:{r.terminatingTasks}"
  let f := match c.finished with
    | none => "~"
    | some f => s!"{encTime f.latestCreationTimestamp}:{encTime f.latestRunningTimestamp}:{encTime f.finishTimestamp}:{encJobResult f.result}"
  s!"{q}|{w}|{r}|{f}"
def encJState : JobState → String
  | .queued => "Q" | .waiting => "W" | .running => "R" | .finished => "F" | .empty => "-"

def encRequest (r : CreationRequest) : String := s!"{encPIndexV r.index}*{r.retryIndex}*{r.earliest}"

-- ---------------------------------------------------------------- decoders

def decTime : String → Option Time := optInt

def decPIndex (s : String) : Option PIndex :=
  if s = "-" then none else
  match s.splitOn "@" with
  | [h, v] => some { hash := h, val := unq v }
  | _ => some { hash := s, val := "" }

def decPIndexes (s : String) : List PIndex :=
  if s = "-" then [] else (s.splitOn "#").filterMap decPIndex

def decTState : String → TaskState
  | "St" => .starting | "Ru" => .running | "Ki" => .killing | "Te" => .terminated
  | "Dl" => .deletedFinalStateUnknown | _ => .empty
def decTRes : String → TaskResult
  | "S" => .succeeded | "F" => .failed | "K" => .killed | _ => .none
def decStatus (s : String) : TaskStatus :=
  match s.splitOn "^" with
  | [a, b, c] => { state := decTState a, result := decTRes b, reason := unq c }
  | _ => {}
def decDStatus (s : String) : Option TaskStatus := if s = "~" then none else some (decStatus s)

def decTaskRefFields : List String → Option TaskRef
  | [n, c, r, f, ri, pi, st, ds] => some {
      name := unq n, creationTimestamp := decTime c, runningTimestamp := decTime r,
      finishTimestamp := decTime f, retryIndex := int! ri, parallelIndex := decPIndex pi,
      status := decStatus st, deletedStatus := decDStatus ds }
  | _ => none

def decTaskRef (s : String) : Option TaskRef := decTaskRefFields (s.splitOn ";")

def decTaskRefs (s : String) : List TaskRef :=
  if s = "-" then [] else (s.splitOn "#").filterMap decTaskRef

def decTask (s : String) : Option Task :=
  match s.splitOn ";" with
  | n :: del :: rest =>
    match decTaskRefFields rest with
    | some r => some { name := unq n, deletionTimestamp := decTime del, ref := r }
    | none => none
  | _ => none

def decTasks (s : String) : List Task :=
  if s = "-" then [] else (s.splitOn "#").filterMap decTask

def decTerm (s : String) : Option Terminated :=
  if s = "~" then none else
  match s.splitOn "&" with
  | [a, b, r] => some { startedAt := decTime a, finishedAt := decTime b, reason := unq r }
  | _ => none

def decContainer (s : String) : Option Container :=
  match s.splitOn "*" with
  | [r, t, l] => some {
      running := if r = "~" then none else some (decTime r),
      terminated := decTerm t, lastTerminated := decTerm l }
  | _ => none

def decPhase : String → PodPhase
  | "P" => .pending | "R" => .running | "S" => .succeeded | "F" => .failed | "U" => .unknown | _ => .other

def decPod (s : String) : Option Pod :=
  match s.splitOn ";" with
  | [n, c, del, ph, st, sr, ads, ri, pi, sch, rs, cs] => some {
      name := unq n, creationTimestamp := decTime c, deletionTimestamp := decTime del,
      phase := decPhase ph, startTime := decTime st, statusReason := unq sr,
      activeDeadlineSeconds := optInt ads, retryIndex := optInt ri, parallelIndex := decPIndex pi,
      scheduled := bool! sch, reason := unq rs,
      containers := if cs = "-" then [] else (cs.splitOn "!").filterMap decContainer }
  | _ => none

def decIState : String → IndexState
  | "NC" => .notCreated | "RB" => .retryBackoff | "St" => .starting | "Ru" => .running
  | "Te" => .terminated | _ => .empty

def decIndexStatus (s : String) : Option IndexStatus :=
  match s.splitOn "*" with
  | [pi, h, c, st, r] =>
    match decPIndex pi with
    | some i => some { index := i, hash := unq h, createdTasks := int! c, state := decIState st, result := decTRes r }
    | none => none
  | _ => none

def decIndexStatuses (s : String) : List IndexStatus :=
  if s = "-" then [] else (s.splitOn "!").filterMap decIndexStatus

def decOptBool : String → Option Bool
  | "0" => some false | "1" => some true | _ => none

def decPStatus (s : String) : Option ParallelStatus :=
  if s = "~" then none else
  match s.splitOn "|" with
  | [c, su, is] => some { summary := { complete := bool! c, successful := decOptBool su }, indexes := decIndexStatuses is }
  | _ => none

def decJobResult : String → JobResult
  | "Su" => .success | "Fa" => .failed | "AE" => .admissionError | "Ki" => .killed
  | "FU" => .finalStateUnknown | _ => .other

def decCondition (s : String) : Condition :=
  match s.splitOn "|" with
  | [q, w, r, f] => {
      queueing := match q with
        | "~" => none | "ND" => some .notYetDue | "Qd" => some .queued | _ => some .none
      waiting := match w with
        | "~" => none | "DT" => some .deletingTasks | "PC" => some .pendingCreation
        | "RB" => some .retryBackoff | "WT" => some .waitingForTasks | _ => some .none
      running := if r = "~" then none else
        match r.splitOn ":" with
        | [a, b, c] => some { latestCreationTimestamp := decTime a, latestRunningTimestamp := decTime b, terminatingTasks := int! c }
        | _ => none
      finished := if f = "~" then none else
        match f.splitOn ":" with
        | [a, b, c, d] => some { latestCreationTimestamp := decTime a, latestRunningTimestamp := decTime b,
                                 finishTimestamp := decTime c, result := decJobResult d }
        | _ => none }
  | _ => {}

def decJState : String → JobState
  | "Q" => .queued | "W" => .waiting | "R" => .running | "F" => .finished | _ => .empty

def decStrategy : String → Strategy
  | "All" => .allSuccessful | "Any" => .anySuccessful | "Oth" => .other | _ => .empty

/-- number of tokens of a `job` -/
def jobArity : Nat := 20

/-- decode a Job from the head of a token list; returns the remaining tokens -/
def decJob : List String → Option (Job × List String)
  | tm :: par :: idx :: ma :: rd :: pt :: fb :: kill :: ttl :: adm :: del :: sp :: stt :: ph :: js :: cond ::
    ct :: rt :: refs :: ps :: rest =>
    let template : Option Template :=
      if tm = "~" then none else some {
        parallelism := if par = "~" then none else some { strategy := decStrategy par, indexes := decPIndexes idx }
        maxAttempts := optInt ma, retryDelaySeconds := optInt rd, taskPendingTimeoutSeconds := optInt pt
        forbidTaskForceDeletion := bool! fb }
    let startPolicy : Option StartPolicy :=
      if sp = "~" then none else
      match sp.splitOn ":" with
      | [a, e] => some { startAfter := decTime a, concurrencyEnqueue := bool! e }
      | _ => some {}
    some ({ template := template, killTimestamp := decTime kill, ttlSecondsAfterFinished := optInt ttl,
            startPolicy := startPolicy, admissionError := bool! adm, deletionTimestamp := decTime del,
            status := { phase := unq ph, state := decJState js, condition := decCondition cond,
                        startTime := decTime stt, createdTasks := int! ct, runningTasks := int! rt,
                        tasks := decTaskRefs refs, parallelStatus := decPStatus ps } }, rest)
  | _ => none

-- ---------------------------------------------------------------- step

structure TaskfnDS where
  now : Time := 0
  d : PIndex := { hash := "gezdqo", val := "n0" }

def taskfnStep (s : TaskfnDS) (t : List String) : TaskfnDS × String :=
  match t with
  | ["taskfn.env", now, di] =>
    ({ now := int! now, d := (decPIndex di).getD s.d }, "ok")
  | ["taskfn.pod", p] =>
    match decPod p with
    | none => (s, "bad-op")
    | some pod =>
      let fin := match pod.finishTimestamp with
        | none => "panic" | some f => encTime f
      let ref := match pod.taskRef s.now with
        | none => "panic" | some r => encTaskRef r
      (s, s!"{encTState pod.state} {encTRes pod.result} {encTime pod.runningTimestamp} {fin} {b01 pod.requiresKillWithDeletion} {ref}")
  | ["taskfn.gettaskref", ex, tk] =>
    match decTask tk with
    | none => (s, "bad-op")
    | some task =>
      let existing := if ex = "~" then none else decTaskRef ex
      (s, encTaskRef (getTaskRef existing task))
  | ["taskfn.genrefs", refs, tasks] =>
    (s, encTaskRefs (generateTaskRefs s.now (decTaskRefs refs) (decTasks tasks)))
  | ["taskfn.updrefs", refs, tasks] =>
    let rj : Job := { status := { tasks := decTaskRefs refs } }
    let r := updateJobTaskRefs s.now rj (decTasks tasks)
    (s, s!"{r.status.createdTasks} {r.status.runningTasks} {encTaskRefs r.status.tasks}")
  | ["taskfn.delstatus", refs, name, st] =>
    let rj : Job := { status := { tasks := decTaskRefs refs } }
    (s, encTaskRefs (updateTaskRefDeletedStatusIfNotSet rj (unq name) (decStatus st)).status.tasks)
  | ["taskfn.sort", refs] => (s, encTaskRefs (sortTaskRefs (decTaskRefs refs)))
  | ["taskfn.counters", is] =>
    let c := getParallelStatusCounters (decIndexStatuses is)
    (s, s!"{c.created} {c.starting} {c.running} {c.retryBackoff} {c.terminated} {c.succeeded} {c.failed}")
  | "taskfn.summary" :: rest =>
    match decJob rest with
    | some (job, []) =>
      let sm := getParallelTaskSummary s.d job job.status.tasks
      (s, s!"{b01 sm.complete} {encOptBool sm.successful}")
    | _ => (s, "bad-op")
  | "taskfn.pstatus" :: rest =>
    match decJob rest with
    | some (job, []) => (s, encPStatus (some (getParallelStatus s.d job job.status.tasks)))
    | _ => (s, "bad-op")
  | "taskfn.missing" :: rest =>
    match decJob rest with
    | some (job, [idx]) =>
      match computeMissingIndexesForCreation s.d job (decPIndexes idx) with
      | none => (s, "panic")
      | some l => (s, encList encRequest "#" l)
    | _ => (s, "bad-op")
  | "taskfn.cond" :: rest =>
    match decJob rest with
    | some (job, []) => (s, encCondition (getCondition s.now s.d job))
    | _ => (s, "bad-op")
  | "taskfn.phase" :: rest =>
    match decJob rest with
    | some (job, []) => (s, qEnc (getPhase s.now job))
    | _ => (s, "bad-op")
  | "taskfn.update" :: rest =>
    match decJob rest with
    | some (job, []) =>
      match updateJobStatusFromTaskRefs s.now s.d job with
      | none => (s, "panic")
      | some j => (s, s!"{encJState j.status.state} {qEnc j.status.phase} {encCondition j.status.condition} {encPStatus j.status.parallelStatus}")
    | _ => (s, "bad-op")
  | "taskfn.flags" :: rest =>
    match decJob rest with
    | some (job, []) =>
      (s, s!"{b01 (isStarted job)} {b01 (isQueued job)} {b01 (isActive job)} {b01 (phaseIsTerminal job.status.phase)}")
    | _ => (s, "bad-op")
  | "taskfn.timeouts" :: rest =>
    match decJob rest with
    | some (job, [ttl, pend, force]) =>
      let cfg : ExecConfig := { defaultTTLSecondsAfterFinished := optInt ttl,
                                defaultPendingTimeoutSeconds := optInt pend,
                                forceDeleteTaskTimeoutSeconds := optInt force }
      let p := match getPendingTimeout job cfg with
        | none => "panic" | some v => toString v
      (s, s!"{p} {getForceDeleteTimeout cfg} {getTTLAfterFinished job cfg}")
    | _ => (s, "bad-op")
  | _ => (s, "bad-op")

end Furiko.Driver
