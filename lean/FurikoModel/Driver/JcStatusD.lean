/- Line-protocol driver of the `jcstatus` engine (property C15).  See harness/eng/jcstatus.go
for the op grammar. -/
import FurikoModel.Model.JobConfigStatus
import FurikoModel.Driver.Proto
namespace Furiko.Driver
open Furiko Furiko.JcStatus

/-- driver state: the authoritative JobConfigs (with the resourceVersion counter of the
simulated API server), the JobConfig cache and the Job cache (kept in key order, like the
harness' sorted indexer). -/
structure JcDS where
  occ : Bool := true
  nextRv : Nat := 1
  api : List JobConfig := []
  cacheJC : List JobConfig := []
  cacheJobs : List Job := []

namespace Jcs  -- helpers live in their own namespace (other drivers define similar names)

def optStr (s : String) : Option String := if s = "~" then none else some (unq s)

def parseRef (s : String) : JobRef :=
  match s.splitOn "|" with
  | [u, n, c, p, st] => { uid := unq u, name := unq n, created := int! c, phase := unq p, startTime := optInt st }
  | _ => { uid := "?", name := "?", created := 0, phase := "?", startTime := none }

def parseRefs (s : String) : List JobRef :=
  if s = "-" then [] else (s.splitOn ";").map parseRef

def parseSched (s : String) : Sched :=
  match s.toList with
  | [a, b, c] => { hasSchedule := a == '1', hasCron := b == '1', disabled := c == '1' }
  | _ => {}

/-- 7 tokens -/
def parseStatus : List String → Option (Status × List String)
  | st :: q :: qr :: a :: ar :: ls :: le :: rest =>
    some ({ state := unq st, queued := int! q, queuedJobs := parseRefs qr, active := int! a,
            activeJobs := parseRefs ar, lastScheduled := optInt ls, lastExecuted := optInt le }, rest)
  | _ => none

/-- 12 tokens -/
def parseJob : List String → Option Job
  | [ns, name, uid, created, label, ok, on, ou, start, phase, del, ann] =>
    some { ns := unq ns, name := unq name, uid := unq uid, created := int! created,
           labelUid := optStr label,
           owner := if ok = "~" then none else some { kind := unq ok, name := unq on, uid := unq ou },
           startTime := optInt start, phase := unq phase, deletion := optInt del, schedAnn := optStr ann }
  | _ => none

def showRef (r : JobRef) : String :=
  s!"{r.name}|{r.uid}|{r.created}|{r.phase}|{showOptInt r.startTime}"

def insertByName (r : JobRef) : List JobRef → List JobRef
  | [] => [r]
  | x :: xs => if r.name < x.name || (r.name == x.name && r.uid < x.uid) then r :: x :: xs else x :: insertByName r xs

def showRefs (asSet : Bool) (rs : List JobRef) : String :=
  let rs := if asSet then rs.foldr insertByName [] else rs
  ";".intercalate (rs.map showRef)

def showStatus (asSet : Bool) (s : Status) : String :=
  s!"{s.state} q={s.queued}[{showRefs asSet s.queuedJobs}] a={s.active}[{showRefs asSet s.activeJobs}] ls={showOptInt s.lastScheduled} le={showOptInt s.lastExecuted}"

def findJC (l : List JobConfig) (ns name : String) : Option JobConfig :=
  l.find? fun c => c.ns == ns && c.name == name

def setJC (l : List JobConfig) (jc : JobConfig) : List JobConfig :=
  jc :: l.filter fun c => !(c.ns == jc.ns && c.name == jc.name)

def delJC (l : List JobConfig) (ns name : String) : List JobConfig :=
  l.filter fun c => !(c.ns == ns && c.name == name)

def jobKey (j : Job) : String := keyOf j.ns j.name

def setJob (l : List Job) (j : Job) : List Job :=
  let rec ins : List Job → List Job
    | [] => [j]
    | x :: xs => if jobKey j < jobKey x then j :: x :: xs else x :: ins xs
  ins (l.filter fun x => jobKey x != jobKey j)

def delJob (l : List Job) (j : Job) : List Job := l.filter fun x => jobKey x != jobKey j

def evKind (s : String) : Option EvKind :=
  if s = "add" then some .add else if s = "upd" then some .update
  else if s = "del" ∨ s = "tomb" then some .delete else none

def showKey : Option String → String
  | none => "-"
  | some k => k

def outcomeStr : Outcome → String
  | .cacheMiss => "miss" | .noop => "noop" | .updated => "upd" | .conflict => "conflict" | .gone => "gone"

end Jcs
open Jcs

def jcStatusStep (s : JcDS) (t : List String) : JcDS × String :=
  match t with
  | ["jcstatus.reset", occ] => ({ occ := bool! occ }, "ok")
  | "jcstatus.truth" :: _ => (s, "ok")
  | "jcstatus.api-jc" :: ns :: name :: uid :: sched :: rest =>
    match parseStatus rest with
    | some (st, []) =>
      let jc : JobConfig := { ns := unq ns, name := unq name, uid := unq uid, sched := parseSched sched, rv := s.nextRv, status := st }
      ({ s with api := setJC s.api jc, nextRv := s.nextRv + 1 }, s!"rv={jc.rv}")
    | _ => (s, "bad-op")
  | ["jcstatus.api-jc-del", ns, name] => ({ s with api := delJC s.api (unq ns) (unq name) }, "ok")
  | ["jcstatus.api-jc-sched", ns, name, sched] =>
    match findJC s.api (unq ns) (unq name) with
    | none => (s, "notfound")
    | some jc =>
      let jc' := { jc with sched := parseSched sched, rv := s.nextRv }
      ({ s with api := setJC s.api jc', nextRv := s.nextRv + 1 }, s!"rv={jc'.rv}")
  | "jcstatus.ev-jc" :: kind :: ns :: name :: uid :: sched :: rv :: rest =>
    match evKind kind, parseStatus rest with
    | some k, some (st, []) =>
      let jc : JobConfig := { ns := unq ns, name := unq name, uid := unq uid, sched := parseSched sched, rv := nat! rv, status := st }
      let cache := if k == .delete then delJC s.cacheJC jc.ns jc.name else setJC s.cacheJC jc
      ({ s with cacheJC := cache }, showKey (onJobConfigEvent k jc))
    | _, _ => (s, "bad-op")
  | "jcstatus.ev-job" :: kind :: rest =>
    match evKind kind, parseJob rest with
    | some k, some j =>
      let cache := if k == .delete then delJob s.cacheJobs j else setJob s.cacheJobs j
      ({ s with cacheJobs := cache }, showKey (onJobEvent k s.cacheJC j))
    | _, _ => (s, "bad-op")
  | "jcstatus.cache-job" :: rest =>
    match parseJob rest with
    | some j => ({ s with cacheJobs := setJob s.cacheJobs j }, "ok")
    | none => (s, "bad-op")
  | ["jcstatus.sync", ns, name, mode] =>
    let ns := unq ns
    let name := unq name
    let asSet := mode == "set"
    match findJC s.cacheJC ns name with
    | none => (s, "miss")
    | some read =>
      let api := findJC s.api ns name
      let (api', o, evs) := syncCore s.occ api read s.cacheJobs s.nextRv
      let s' : JcDS :=
        match o, api' with
        | .updated, some jc => { s with api := setJC s.api jc, nextRv := s.nextRv + 1 }
        | _, _ => s
      let ostr := if asSet && (o == .noop || o == .updated) then "*" else outcomeStr o
      let evstr := if evs.isEmpty then "-" else ",".intercalate evs
      let apistr := match api' with
        | none => "api=-"
        | some jc => s!"rv={if asSet then 0 else jc.rv} {showStatus asSet jc.status}"
      (s', s!"{ostr} {apistr} ev={evstr}")
  | _ => (s, "bad-op")

end Furiko.Driver
