import FurikoModel.Model.JobCtl
import FurikoModel.Driver.Proto
namespace Furiko.Driver.JC
open Furiko Furiko.JobCtl Furiko.Driver

def orU (s : String) : String := if s = "" then "_" else s
def tsec : Option Time → String
  | none => "-"
  | some t => toString (t / 1000000000)
def optSec (s : String) : Option Time := (optInt s).map (· * 1000000000)

def tStateStr : TaskState → String
  | .empty => "_" | .starting => "Starting" | .running => "Running" | .killing => "Killing"
  | .terminated => "Terminated" | .deletedFinalStateUnknown => "DeletedFinalStateUnknown"
def tResStr : TaskResult → String
  | .none => "_" | .succeeded => "Succeeded" | .failed => "Failed" | .killed => "Killed"
def iStateStr : IndexState → String
  | .empty => "_" | .notCreated => "NotCreated" | .retryBackoff => "RetryBackoff" | .starting => "Starting"
  | .running => "Running" | .terminated => "Terminated"
def jStateStr : JobState → String
  | .empty => "_" | .queued => "Queued" | .waiting => "Waiting" | .running => "Running" | .finished => "Finished"
def qReasonStr : QueueReason → String
  | .none => "_" | .notYetDue => "NotYetDue" | .queued => "Queued"
def wReasonStr : WaitReason → String
  | .none => "_" | .deletingTasks => "DeletingTasks" | .pendingCreation => "PendingCreation"
  | .retryBackoff => "RetryBackoff" | .waitingForTasks => "WaitingForTasks"

def refDigest (r : TaskRef) : String :=
  let ds := match r.deletedStatus with
    | none => "-"
    | some d => s!"{tStateStr d.state}/{tResStr d.result}/{orU d.reason}"
  let hash := match r.parallelIndex with | none => "-" | some p => p.hash
  s!"{r.name}~{tStateStr r.status.state}~{tResStr r.status.result}~{orU r.status.reason}~{tsec r.creationTimestamp}~{tsec r.runningTimestamp}~{tsec r.finishTimestamp}~{r.retryIndex}~{hash}~{ds}"

def condStr (c : Condition) : String :=
  match c.queueing, c.waiting, c.running, c.finished with
  | some q, _, _, _ => "Q:" ++ qReasonStr q
  | none, some w, _, _ => "W:" ++ wReasonStr w
  | none, none, some r, _ => s!"R:{tsec r.latestCreationTimestamp},{tsec r.latestRunningTimestamp},{r.terminatingTasks}"
  | none, none, none, some f =>
    s!"F:{tsec f.latestCreationTimestamp},{tsec f.latestRunningTimestamp},{tsec f.finishTimestamp},{orU f.result.str}"
  | none, none, none, none => "none"

def ncond (c : Condition) : Nat :=
  (if c.queueing.isSome then 1 else 0) + (if c.waiting.isSome then 1 else 0) +
  (if c.running.isSome then 1 else 0) + (if c.finished.isSome then 1 else 0)

def jobDigest : Option JobObj → String
  | none => "gone"
  | some jo =>
    let j := jo.job
    let st := j.status
    let par := match st.parallelStatus with
      | none => "-"
      | some ps =>
        let suc := match ps.summary.successful with | none => "-" | some b => b01 b
        let idx := ",".intercalate (ps.indexes.map fun (ix : IndexStatus) =>
          s!"{ix.hash}:{ix.createdTasks}:{iStateStr ix.state}:{tResStr ix.result}")
        s!"{b01 ps.summary.complete}/{suc}/{idx}"
    let tasks := ";".intercalate (st.tasks.map refDigest)
    let _ := par
    s!"ph={orU st.phase} st={jStateStr st.state} nc={ncond st.condition} cond={condStr st.condition} ct={st.createdTasks} rt={st.runningTasks} start={tsec st.startTime} fin={b01 jo.finalizer} del={tsec j.deletionTimestamp} adm={b01 j.admissionError} kill={tsec j.killTimestamp} par={par} tasks=[{tasks}]"

def phaseStr : PodPhase → String
  | .pending => "Pending" | .running => "Running" | .succeeded => "Succeeded" | .failed => "Failed"
  | .unknown => "Unknown" | .other => "_"

def podDigest (p : PodObj) : String :=
  let owner := p.ownerUid.getD "-"
  let (cst, cfi, oom) : String × String × String :=
    match p.pod.containers with
    | c :: _ =>
      (match c.terminated, c.running with
       | some t, _ => (tsec t.startedAt, tsec t.finishedAt, if t.reason = "OOMKilled" then "1" else "0")
       | none, some r => (tsec r, "-", "0")
       | none, none => ("-", "-", "0"))
    | [] => ("-", "-", "0")
  let retry := match p.pod.retryIndex with | some r => toString r | none => "_"
  let hash := match p.pod.parallelIndex with | some i => i.hash | none => "_"
  -- `LastTerminationState.Terminated` of a restarted container (restartPolicy OnFailure)
  let last := match p.pod.containers.filterMap (·.lastTerminated) with
    | t :: _ => s!"{tsec t.startedAt},{tsec t.finishedAt}"
    | [] => "-"
  s!"{p.pod.name}|{owner}|{tsec p.pod.creationTimestamp}|{retry}|{hash}|{tsec p.pod.deletionTimestamp}|{phaseStr p.pod.phase}|{tsec p.pod.startTime}|{cst}|{cfi}|{oom}|{orU p.pod.reason}|{last}"

def stateStr (s : Sys) : String :=
  let pods := ";".intercalate ((sortPods s.pods).map podDigest)
  let d := ",".intercalate (s.q.delayedSorted.map fun (_, t) => toString t)
  s!"{jobDigest s.job} pods=[{pods}] q={s.q.queue.length}/{d} ev={s.jobEvs.length}/{s.podEvs.length}"

def insStr (x : String) : List String → List String
  | [] => [x]
  | y :: r => if x < y then x :: y :: r else y :: insStr x r

/-- maximal runs of consecutive pod deletes are sorted (the Go side issues them concurrently and
sorts the same way) -/
def sortDeleteRuns : List String → List String → List String
  | [], run => run
  | c :: rest, run =>
    if c.startsWith "delete:pods:" then sortDeleteRuns rest (insStr c run)
    else run ++ c :: sortDeleteRuns rest []

def callsStr (cs : List Call) : String :=
  ",".intercalate (sortDeleteRuns (cs.map fun c =>
    s!"{c.verb}:{c.res}:{c.name}:{c.out}" ++ (if c.sub then ":status" else "") ++ (if c.force then ":force" else "")) [])

def parsePhase (s : String) : PodPhase :=
  if s = "Pending" then .pending else if s = "Running" then .running else if s = "Succeeded" then .succeeded
  else if s = "Failed" then .failed else if s = "Unknown" then .unknown else .other

/-- rebuild a pod object from its digest, keeping identity fields of the previous version.  The
last field is `-` or `<startedAt>,<finishedAt>` of the container's `LastTerminationState.Terminated`
(a container that was restarted: while it waits for the next restart it has neither a `Running` nor
a `Terminated` current state, only this one). -/
def parsePod (old : Option PodObj) (f : List String) : Option PodObj :=
  match f with
  | [name, owner, ct, retry, hash, del, phase, st, cst, cfi, oom, reason, last] =>
    let base : PodObj := old.getD { pod := { name := name } }
    let lastT : Option Terminated :=
      match last.splitOn "," with
      | [a, b] => some { startedAt := optSec a, finishedAt := optSec b, reason := "Error" }
      | _ => none
    let conts0 : List Container :=
      if cfi ≠ "-" || (cst ≠ "-" && (phase = "Succeeded" || phase = "Failed")) then
        [{ terminated := some { startedAt := optSec cst, finishedAt := optSec cfi,
                                reason := if oom = "1" then "OOMKilled" else (if reason = "_" then "Completed" else reason) } }]
      else if cst ≠ "-" then [{ running := some (optSec cst) }]
      else []
    let conts : List Container :=
      match lastT, conts0 with
      | none, cs => cs
      | some t, [] => [{ lastTerminated := some t }]
      | some t, c :: cs => { c with lastTerminated := some t } :: cs
    some { base with
      pod := { base.pod with
        name := name, creationTimestamp := optSec ct, deletionTimestamp := optSec del,
        phase := parsePhase phase, startTime := optSec st, containers := conts,
        retryIndex := if retry = "_" then none else retry.toInt?,
        parallelIndex := if hash = "_" then none else
          (match base.pod.parallelIndex with | some i => some i | none => some { hash := hash }),
        reason := if reason = "_" then "" else reason },
      ownerUid := if owner = "-" then none else some owner }
  | _ => none

partial def flushAll (s : Sys) : Sys :=
  let rec js (s : Sys) : Sys := if s.jobEvs.isEmpty then s else js (deliverJob s)
  let rec ps (s : Sys) : Sys := if s.podEvs.isEmpty then s else ps (deliverPod s)
  let s1 := ps (js s)
  if s1.jobEvs.isEmpty && s1.podEvs.isEmpty then s1 else flushAll s1

def parseStrategy (s : String) : Strategy :=
  if s = "_" then .empty else if s = "AllSuccessful" then .allSuccessful
  else if s = "AnySuccessful" then .anySuccessful else .other

def jcStep (s : Sys) (t : List String) : Sys × String :=
  let fin (s : Sys) : Sys × String := (s, stateStr s)
  match t with
  | ["jc.reset", now, pend, force, ttl] =>
    let cfg : ExecConfig := {
      defaultPendingTimeoutSeconds := optInt pend
      forceDeleteTaskTimeoutSeconds := optInt force
      defaultTTLSecondsAfterFinished := optInt ttl }
    ({ clock := int! now, cfg := cfg }, "ok")
  | ["jc.job", name, uid, started, maxAtt, delay, pendT, ttl, forbid, strategy, par, defHash, kill, finz] =>
    let indexes : List PIndex := if par = "-" then [] else (par.splitOn ",").map (fun h => { hash := h })
    let ps : ParSpec := { strategy := parseStrategy strategy, indexes := indexes }
    let tmpl : Template := {
      parallelism := if par = "-" then none else some ps
      maxAttempts := optInt maxAtt
      retryDelaySeconds := optInt delay
      taskPendingTimeoutSeconds := optInt pendT
      forbidTaskForceDeletion := bool! forbid }
    let s := { s with d := { hash := defHash } }
    let st : JobStatus := { startTime := if bool! started then some (nowT s) else none }
    let job : Job := {
      template := some tmpl
      killTimestamp := optSec kill
      ttlSecondsAfterFinished := optInt ttl
      status := st }
    fin (userCreateJob s { name := name, uid := uid, job := job, finalizer := bool! finz, rv := 0 })
  | ["jc.deliver", "jobs"] => fin (deliverJob s)
  | ["jc.deliver", "pods"] => fin (deliverPod s)
  | ["jc.flush"] => fin (flushAll s)
  | ["jc.resync"] => fin (resync s)
  | ["jc.work"] =>
    let (s1, res) := work s
    (s1, s!"{res} calls={callsStr s1.calls} {stateStr s1}")
  | ["jc.pod", name, dig] =>
    if dig = "gone" then fin (removePod s name)
    else match parsePod (findPod s.pods name) (dig.splitOn "|") with
      | some p => fin (setPodState s p)
      | none => (s, "bad-op")
  | ["jc.foreign", name, owned] =>
    let fp : PodObj := {
      pod := { name := name, creationTimestamp := some (nowT s) }
      ownerUid := if bool! owned then some "other-uid" else none
      ownerName := if bool! owned then some "other" else none }
    fin (createForeignPod s fp)
  | ["jc.kill", at_] => fin (mutateJobObj s (fun j => { j with job := { j.job with killTimestamp := optSec at_ } }))
  | ["jc.delete"] => fin (userDeleteJob s)
  | ["jc.adv", d] => fin { s with clock := s.clock + int! d }
  -- `forbidden` (403, not applied) is to the controller what `err` is: a failed call that is retried
  -- (only 422 Invalid on a pod create is a final refusal, and no fault of this engine produces it)
  | ["jc.fault", f] => fin { s with faults := s.faults ++ [if f = "-" then "" else if f = "forbidden" then "err" else f] }
  | ["jc.clearfaults"] => fin { s with faults := [] }
  | ["jc.restart"] => fin (restart s)
  | _ => (s, "bad-op")

end Furiko.Driver.JC
