/- Line-protocol helpers for the model driver (token decoding, rendering). Core Lean only. -/
namespace Furiko.Driver

def hexVal (c : Char) : Nat :=
  if '0' ≤ c ∧ c ≤ '9' then c.toNat - '0'.toNat
  else if 'A' ≤ c ∧ c ≤ 'F' then c.toNat - 'A'.toNat + 10
  else if 'a' ≤ c ∧ c ≤ 'f' then c.toNat - 'a'.toNat + 10
  else 0

/-- decode the Go side's `Q` encoding, as bytes interpreted as UTF-8 -/
def unqBytes : List Char → List UInt8
  | [] => []
  | '%' :: '-' :: rest => unqBytes rest
  | '%' :: a :: b :: rest => UInt8.ofNat (hexVal a * 16 + hexVal b) :: unqBytes rest
  | c :: rest => (String.singleton c).toUTF8.toList ++ unqBytes rest

def unq (s : String) : String :=
  match String.fromUTF8? (ByteArray.mk (unqBytes s.toList).toArray) with
  | some r => r
  | none => s

def toks (line : String) : List String :=
  (line.splitOn " ").filter (· ≠ "")

def optInt (s : String) : Option Int := if s = "-" then none else s.toInt?
def int! (s : String) : Int := s.toInt?.getD 0
def nat! (s : String) : Nat := s.toNat?.getD 0
def bool! (s : String) : Bool := s = "1"
def b01 (b : Bool) : String := if b then "1" else "0"
def showOptInt : Option Int → String
  | none => "-"
  | some i => toString i

/-- parse `a,b,c` into ints (`-` or empty = empty list) -/
def intList (s : String) : List Int :=
  if s = "-" ∨ s = "" then [] else (s.splitOn ",").filterMap String.toInt?

end Furiko.Driver
