import FurikoModel.Model.QueueMid
import FurikoModel.Driver.Proto
namespace Furiko.Driver
open Furiko Furiko.Queue Furiko.WQ

structure QueueDS where
  sys  : Sys := {}
  uids : List String := []
  deriving Inhabited

def optStr (s : String) : Option String := if s = "-" then none else some s

def wqStr (q : WQ) : String :=
  "r:" ++ ",".intercalate q.queue ++ ";d:" ++
    ",".intercalate (q.delayedSorted.map fun (k, d) => s!"{k}@{d}")

def qDigest (d : QueueDS) : String :=
  let s := d.sys
  let cs := ",".intercalate (d.uids.map fun u => s!"{u}:{getCtr s.counter u}")
  s!"ctr={cs} cfg={wqStr s.cfgQ} ind={wqStr s.indQ} ev={s.jobEvs.length}/{s.jcEvs.length} nq={s.storeQ.length}/{s.ctrlQ.length}"

def callsStr (cs : List Call) : String :=
  ",".intercalate (cs.map fun c => s!"{c.verb}:{c.job}:{c.res}")

partial def deliverAll (s : Sys) : Sys :=
  -- mirrors SimAPI.DeliverAll: jobconfigs, then jobs (each event flushed to both handlers), repeat
  let rec jcs (s : Sys) : Sys := if s.jcEvs.isEmpty then s else jcs (deliverJC s)
  let rec flushNotes (s : Sys) : Sys :=
    if s.storeQ.isEmpty && s.ctrlQ.isEmpty then s
    else flushNotes (notifyCtrl (notifyStore s))
  let rec jobs (s : Sys) : Sys :=
    if s.jobEvs.isEmpty then s else jobs (flushNotes (deliverJob s))
  let s1 := jobs (jcs s)
  if s1.jcEvs.isEmpty && s1.jobEvs.isEmpty then flushNotes s1 else deliverAll s1

def queueStep (d : QueueDS) (t : List String) : QueueDS × String :=
  let fin (s : Sys) : QueueDS × String := ({ d with sys := s }, qDigest { d with sys := s })
  match t with
  | ["q.reset", now, uids] =>
    let d' : QueueDS := { sys := { clock := int! now }, uids := uids.splitOn "," }
    (d', qDigest d')
  | ["q.jc", n, mc] =>
    fin (userAddJC d.sys { name := n, uid := "u-" ++ n, maxConc := (optInt mc).getD 1, rv := 0 })
  | ["q.jcmax", n, m] => fin (setMaxConc d.sys n (int! m))
  | ["q.jcdel", n] => fin (removeJC d.sys n)
  | ["q.job", n, label, ownN, ownU, hp, pol, sa] =>
    let j : JobV := {
      name := n, label := optStr label, ownerName := optStr ownN, ownerUid := optStr ownU
      created := 0, hasPolicy := bool! hp, policy := nat! pol, startAfter := optInt sa
      startTime := none, terminal := false, admErr := false, rv := 0 }
    fin (userAddJob d.sys j)
  | ["q.phase", n, term] => fin (mutateJob d.sys n (fun j => { j with terminal := bool! term }))
  | ["q.del", n] => fin (removeJob d.sys n)
  | ["q.extstart", n] =>
    fin (mutateJob d.sys n (fun j =>
      if j.startTime.isSome then j else { j with startTime := some (d.sys.clock / 1000000000) }))
  -- the user sets / clears / moves spec.startPolicy.startAfter of a not-yet-started Job that has
  -- a start policy (`editStartAfter` = guarded `mutateJob`)
  | ["q.sa", n, t] => fin (editStartAfter d.sys n (optInt t))
  | ["q.adv", ns] => fin { d.sys with clock := d.sys.clock + int! ns }
  | ["q.deliver", "jobs"] => fin (deliverJob d.sys)
  | ["q.deliver", "jobconfigs"] => fin (deliverJC d.sys)
  | ["q.notify", "0"] => fin (notifyStore d.sys)
  | ["q.notify", "1"] => fin (notifyCtrl d.sys)
  | ["q.flush"] => fin (deliverAll d.sys)
  | ["q.resync"] => fin (resync d.sys)   -- notifications are queued; the Go side runs them at once
  | ["q.markdel", n] => fin (mutateJob d.sys n (fun j => j))   -- deletionTimestamp set: nothing the queue controller reads
  | ["q.work", "cfg", k] =>
    let (s, res) := workConfigMid d.sys (nat! k)
    let d' := { d with sys := s }
    (d', s!"{res} calls={callsStr s.calls} {qDigest d'}")
  | ["q.work", which] =>
    let (s, res) := if which = "cfg" then workConfig d.sys else workIndependent d.sys
    let d' := { d with sys := s }
    (d', s!"{res} calls={callsStr s.calls} {qDigest d'}")
  | ["q.fault", f] => fin { d.sys with faults := d.sys.faults ++ [f] }
  | ["q.clearfaults"] => fin { d.sys with faults := [] }
  | ["q.restart"] => fin (restart d.sys)
  | _ => (d, "bad-op")

end Furiko.Driver
