import FurikoModel.Model.QueueMid
import FurikoModel.Driver.Proto
namespace Furiko.Driver
open Furiko Furiko.Queue Furiko.WQ

structure QueueDS where
  sys  : Sys := {}
  uids : List String := []
  /-- the Jobs watch is interrupted (`q.outage`): no Job event is delivered until `q.relist` or a
  restart.  State of the driver, not of `Sys` (the proved transition system has no outage). -/
  outage : Bool := false
  deriving Inhabited

def optStr (s : String) : Option String := if s = "-" then none else some s

def wqStr (q : WQ) : String :=
  "r:" ++ ",".intercalate q.queue ++ ";d:" ++
    ",".intercalate (q.delayedSorted.map fun (k, d) => s!"{k}@{d}")

def qDigest (d : QueueDS) : String :=
  let s := d.sys
  let cs := ",".intercalate (d.uids.map fun u => s!"{u}:{getCtr s.counter u}")
  s!"ctr={cs} cfg={wqStr s.cfgQ} ind={wqStr s.indQ} ev={s.jobEvs.length}/{s.jcEvs.length} nq={s.storeQ.length}/{s.ctrlQ.length}"

def callsStr (cs : List Call) : String :=
  ",".intercalate (cs.map fun c => s!"{c.verb}:{c.job}:{c.res}")

partial def deliverAllJCs (s : Sys) : Sys := if s.jcEvs.isEmpty then s else deliverAllJCs (deliverJC s)

partial def flushNotes (s : Sys) : Sys :=
  if s.storeQ.isEmpty && s.ctrlQ.isEmpty then s
  else flushNotes (notifyCtrl (notifyStore s))

partial def deliverAll (s : Sys) : Sys :=
  -- mirrors SimAPI.DeliverAll: jobconfigs, then jobs (each event flushed to both handlers), repeat
  let rec jobs (s : Sys) : Sys :=
    if s.jobEvs.isEmpty then s else jobs (flushNotes (deliverJob s))
  let s1 := jobs (deliverAllJCs s)
  if s1.jcEvs.isEmpty && s1.jobEvs.isEmpty then flushNotes s1 else deliverAll s1

/-- `SimAPI.DeliverAll` while the Jobs watch is interrupted: JobConfig events and every queued
notification, no Job event -/
def deliverAllOutage (s : Sys) : Sys := flushNotes (deliverAllJCs s)

def queueStepRaw (d : QueueDS) (t : List String) : QueueDS × String :=
  let fin (s : Sys) : QueueDS × String := ({ d with sys := s }, qDigest { d with sys := s })
  match t with
  | ["q.reset", now, uids] =>
    let d' : QueueDS := { sys := { clock := int! now }, uids := uids.splitOn "," }
    (d', qDigest d')
  | ["q.jc", n, mc] =>
    fin (userAddJC d.sys { name := n, uid := "u-" ++ n, maxConc := (optInt mc).getD 1, rv := 0 })
  | ["q.jcmax", n, m] => fin (setMaxConc d.sys n (int! m))
  | ["q.jcdel", n] => fin (removeJC d.sys n)
  | ["q.job", n, label, ownN, ownU, hp, pol, sa] =>
    let j : JobV := {
      name := n, label := optStr label, ownerName := optStr ownN, ownerUid := optStr ownU
      created := 0, hasPolicy := bool! hp, policy := nat! pol, startAfter := optInt sa
      startTime := none, terminal := false, admErr := false, rv := 0 }
    fin (userAddJob d.sys j)
  | ["q.phase", n, term] => fin (mutateJob d.sys n (fun j => { j with terminal := bool! term }))
  | ["q.del", n] => fin (removeJob d.sys n)
  | ["q.extstart", n] =>
    fin (mutateJob d.sys n (fun j =>
      if j.startTime.isSome then j else { j with startTime := some (d.sys.clock / 1000000000) }))
  -- the user sets / clears / moves spec.startPolicy.startAfter of a not-yet-started Job that has
  -- a start policy (`editStartAfter` = guarded `mutateJob`)
  | ["q.sa", n, t] => fin (editStartAfter d.sys n (optInt t))
  | ["q.adv", ns] => fin { d.sys with clock := d.sys.clock + int! ns }
  | ["q.deliver", "jobs"] => fin (if d.outage then d.sys else deliverJob d.sys)
  | ["q.deliver", "jobconfigs"] => fin (deliverJC d.sys)
  | ["q.notify", "0"] => fin (notifyStore d.sys)
  | ["q.notify", "1"] => fin (notifyCtrl d.sys)
  | ["q.flush"] => fin (if d.outage then deliverAllOutage d.sys else deliverAll d.sys)
  | ["q.resync"] => fin (resync d.sys)   -- notifications are queued; the Go side runs them at once
  | ["q.markdel", n] => fin (mutateJob d.sys n (fun j => j))   -- deletionTimestamp set: nothing the queue controller reads
  | ["q.work", "cfg", k] =>
    let (s, res) := workConfigMid d.sys (nat! k)
    let d' := { d with sys := s }
    (d', s!"{res} calls={callsStr s.calls} {qDigest d'}")
  | ["q.work", which] =>
    let (s, res) := if which = "cfg" then workConfig d.sys else workIndependent d.sys
    let d' := { d with sys := s }
    (d', s!"{res} calls={callsStr s.calls} {qDigest d'}")
  | ["q.fault", f] => fin { d.sys with faults := d.sys.faults ++ [f] }
  | ["q.clearfaults"] => fin { d.sys with faults := [] }
  | ["q.restart"] =>
    let d' := { d with sys := restart d.sys, outage := false }
    (d', qDigest d')
  -- process start with a stale initial LIST (old cache + the first kj / kc undelivered events; the
  -- rest is replayed by the watch) and w Job events delivered inside `Store.Recover`, between the
  -- handler registration and the lister read.  Not an `Act` of Proofs/QueueEnv (outside
  -- E-FreshInitialList / E-QuiescentRecover unless kj = all and w = 0).
  | ["q.restart", kj, kc, w] =>
    let d' := { d with sys := restartStaleWin d.sys (nat! kj) (nat! kc) (nat! w), outage := false }
    (d', qDigest d')
  -- the Jobs watch is interrupted / the informer relists (pairs cached and listed objects by name)
  | ["q.outage"] => let d' := { d with outage := true }; (d', qDigest d')
  | ["q.relist"] =>
    let d' := { d with sys := relist d.sys, outage := false }
    (d', qDigest d')
  | _ => (d, "bad-op")

/-- Listings of the Go side (`sim.sortedIndexer`, `SimAPI.Keys`) are ordered by key.  Job names are
created in increasing order, so the model's append-at-the-end lists are ordered as well — except
when a name is taken again, which the engine only does inside a watch outage (`q.outage`).  The
driver therefore keeps the authoritative list and the cache ordered by name after every operation:
a permutation (the identity unless a name was reused); only the order of resync / relist
notifications depends on it. -/
def queueStep (d : QueueDS) (t : List String) : QueueDS × String :=
  let (d', out) := queueStepRaw d t
  ({ d' with sys := { d'.sys with jobs := sortByName d'.sys.jobs, jobCache := sortByName d'.sys.jobCache } }, out)

end Furiko.Driver
