import FurikoModel.Model.Cron
import FurikoModel.Generated.Facts
import FurikoModel.Driver.Proto
import Std.Data.HashMap
namespace Furiko.Driver
open Furiko Furiko.Cron

structure CronDS where
  cfgD      : Int := 300
  defaultD  : Int := Facts.defaultCronMaxDowntimeSeconds
  maxMissed : Int := Facts.defaultCronMaxMissedSchedules
  vers      : Std.HashMap Nat JC := {}
  worker    : Option Ctl := none
  /-- handler registration (Facts): add, update, delete -/
  regAdd    : Bool := Facts.cronHandlerAdd
  regUpdate : Bool := Facts.cronHandlerUpdate
  regDelete : Bool := Facts.cronHandlerDelete
  /-- F24 shapes (Facts): Init records what it loaded, handleAdd consults the record, handleDelete forgets -/
  records   : Bool := Facts.cronInitRecordsLoaded
  takes     : Bool := Facts.cronHandleAddTakesLoaded
  forgets   : Bool := Facts.cronHandleDeleteForgetsLoaded

instance : Inhabited CronDS := ⟨{}⟩

def parseLists (s : String) : List (List Int) :=
  if s = "-" ∨ s = "none" then [] else (s.splitOn "|").map intList

/-- insertion into a list ordered by (time, key) -/
def insFired (x : String × Int) : List (String × Int) → List (String × Int)
  | [] => [x]
  | y :: rest =>
    if x.2 < y.2 || (x.2 == y.2 && x.1 < y.1) then x :: y :: rest else y :: insFired x rest

/-- The requests of one tick, in canonical order (time, then key).  The order in which DIFFERENT
keys that are due in the same tick are served is the heap's tie order: unspecified by the property
(per key the times are strictly increasing either way, `fired_strictly_increasing`) and proved
irrelevant (`work_perKey`); the exact tie order of the heap port is checked by the `heap` engine. -/
def firedStr (l : List (String × Int)) : String :=
  if l.isEmpty then "-" else " ".intercalate ((l.foldl (fun acc x => insFired x acc) []).map fun (k, t) => s!"{k}@{t}")

def cronStep (s : CronDS) (t : List String) : CronDS × String :=
  match t with
  | ["cron.reset", d, mm] =>
    ({ s with cfgD := int! d, maxMissed := (optInt mm).getD Facts.defaultCronMaxMissedSchedules,
              vers := {}, worker := none }, "ok")
  | ["cron.jc", id, key, en, pe, lists, nbf, naf, lu, spec, ls, uid] =>
    let jc : JC := {
      key := key,   -- kept in its encoded form: keys are compared and echoed only
      sched := { enabled := bool! en, parseErr := bool! pe, exprs := parseLists lists,
                 notBefore := optInt nbf, notAfter := optInt naf, lastUpdated := optInt lu,
                 specId := nat! spec },
      lastScheduled := optInt ls,
      uid := uid }   -- encoded form: compared only
    ({ s with vers := s.vers.insert (nat! id) jc }, "ok")
  | ["cron.init", now, ids] =>
    let jcs := ((ids.splitOn ",").filterMap String.toNat?).filterMap (s.vers.get? ·)
    match ctlInit jcs s.cfgD s.defaultD (int! now) s.records with
    | none => ({ s with worker := none }, "err")
    | some c => ({ s with worker := some c }, "ok")
  | ["cron.init", _] =>
    match ctlInit [] s.cfgD s.defaultD 0 s.records with
    | none => (s, "err")
    | some c => ({ s with worker := some c }, "ok")
  | ["cron.tick", now] =>
    match s.worker with
    | none => (s, "panic")
    | some c =>
      let n := int! now
      let (c', fired, done) := ctlWork c n s.maxMissed Facts.cronFlushLimit 1000000
      ({ s with worker := some c' }, if done then firedStr fired else "fuel-exhausted")
  | ["cron.update", o, n] =>
    match s.vers.get? (nat! o), s.vers.get? (nat! n) with
    | some old, some new =>
      ({ s with worker := s.worker.map (ctlUpdate · old new s.regUpdate) }, "ok")
    | _, _ => (s, "bad-op")
  | ["cron.delete", o] =>
    match s.vers.get? (nat! o) with
    | some old => ({ s with worker := s.worker.map (ctlDelete · old s.regDelete s.forgets) }, "ok")
    | none => (s, "bad-op")
  | ["cron.add", n] =>
    match s.vers.get? (nat! n) with
    | some jc => ({ s with worker := s.worker.map (ctlAdd · jc s.regAdd s.takes) }, "ok")
    | none => (s, "bad-op")
  -- the informer's add notification for a JobConfig that existed at boot; before `cron.init` (or
  -- after a failed one) there is no schedule: `scheduleInitialized = 0` ⇒ the handler returns
  | ["cron.initial-add", n] =>
    match s.vers.get? (nat! n) with
    | some jc => ({ s with worker := s.worker.map (ctlInitialAdd · jc s.regAdd s.takes) }, "ok")
    | none => (s, "bad-op")
  | ["cron.abort"] => (s, "ok")
  | _ => (s, "bad-op")

end Furiko.Driver
