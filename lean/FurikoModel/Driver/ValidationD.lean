/-
Line-protocol driver of the `validate` engine (property C17), ops `val.*`; wire format: see
harness/eng/validate.go.

  val.reset
  val.cfg <format> <hashNames> <hashSeconds> <hashFields> <defaultTz|-> <nowNs> <maxEnqueued|-> <defPending|-> <defTTL|->
        ↦ the derived parser `q<0|1>n<0|1>s<0|1>f<0|1>`
  val.orc.tz <tz> <0|1>                         oracle: tzutils.ParseTimezone(tz) succeeds
  val.orc.parse <hashId|~> <line> <trits>       oracle: cronexpr results; `~` = without WithHash: 2 trits
                                                (standard, quartz); otherwise 8 trits, index q*4+s*2+f
  val.orc.hashes <cnt> <keys> <matrix> <strategy> <h1;h2;…>   oracle: HashIndex of the generated indexes
  val.jc <id> JC…                               store + JobConfig validating webhook
  val.load <id,id,…>                            cronschedule.New on these JobConfigs
  val.bump <id>                                 Schedule.Bump (parse part)
  val.newjob <id> <type> <ts>                   NewJobFromJobConfig
  val.mut JOB…                                  MutateJob (projection of the defaulted template)
  val.jobc JOB… <n> (<name> <uid> <active> <queued> <maxConc|->)*   Job validating webhook, CREATE
  val.jobu JOB… JOB…                            Job validating webhook, UPDATE (old, new)
-/
import FurikoModel.Model.Validation
import FurikoModel.Driver.Proto
import FurikoModel.Driver.OptionsD
import FurikoModel.Driver.IndexesD
import Std.Data.HashMap

namespace Furiko.Driver.ValidationD
open Furiko Furiko.Driver Furiko.Validation Furiko.Driver.OptionsD

structure ValDS where
  cfg : CronCfg := {}
  now : Int := 0
  maxEnq : Option Int := none
  defPending : Option Int := none
  defTTL : Option Int := none
  parseTab : Std.HashMap String String := {}
  tzTab : Std.HashMap String Bool := {}
  hashTab : Std.HashMap String String := {}
  jcs : Std.HashMap String JobConfig := {}
  missing : Bool := false          -- an oracle the model asked for was not transmitted

def tritOf (c : Char) : PR := if c = 'o' then .ok else if c = 'p' then .panic else .err

def ValDS.parseFn (s : ValDS) : ParseFn := fun p hid line =>
  match hid with
  | none =>
    match s.parseTab.get? ("~\n" ++ line) with
    | some bits => tritOf (bits.toList.getD (if p.quartz then 1 else 0) 'e')
    | none => .err
  | some id =>
    match s.parseTab.get? (id ++ "\n" ++ line) with
    | some bits =>
      let i := (if p.quartz then 4 else 0) + (if p.hashEmptySeconds then 2 else 0) + (if p.hashFields then 1 else 0)
      tritOf (bits.toList.getD i 'e')
    | none => .err

def ValDS.env (s : ValDS) : Env :=
  { cfg := s.cfg, P := s.parseFn, parseTz := fun tz => (s.tzTab.get? tz).getD false,
    hash := fun ix => (s.hashTab.get? (showIndex ix)).getD "?",
    now := s.now, maxEnqueuedJobs := s.maxEnq, defaultPendingTimeout := s.defPending, defaultTTL := s.defTTL }

/-! ### parsing -/

def pOptBool : P (Option Bool) := do
  let t ← pTok
  pure (if t = "-" then none else some (t = "1"))

def pOptString : P (Option String) := do
  let t ← pTok
  pure (if t = "-" then none else some (unq t))

def pString : P String := do return unq (← pTok)

def pParSpec : P Indexes.Spec := do
  let cnt ← pTok; let keys ← pTok; let mat ← pTok; let strat ← pTok
  pure { withCount := optInt cnt, withKeys := (listTok keys ";").map unq,
         withMatrix := parseMatrix mat, strategy := unq strat }

def pPod : P (Option PodT) := do
  let t ← pTok
  if t = "-" then pure none else
  match t.toList with
  | 'p' :: v :: a :: e :: ':' :: idc =>
    pure (some { k8sValid := v = '1', restartAlways := a = '1', restartEmpty := e = '1',
                 id := (String.ofList idc).toNat?.getD 0 })
  | _ => failure

def pTemplate : P JobTemplate := do
  let t ← pTok
  if t ≠ "T" then failure
  let pod ← pPod
  let pt ← pTok
  let par : Option Indexes.Spec ← (if pt = "P" then (do let sp ← pParSpec; pure (some sp)) else pure none)
  let ma ← pOptInt; let rd ← pOptInt; let pto ← pOptInt; let ff ← pBool
  pure { pod := pod, parallelism := par, maxAttempts := ma, retryDelay := rd, pendingTimeout := pto,
         forbidForceDeletion := ff }

def pOptTemplate : P (Option JobTemplate) := do
  let s ← get
  match s with
  | "-" :: rest => do set rest; pure none
  | _ => do
    let t ← pTemplate
    pure (some t)

def pSchedule : P (Option Schedule) := do
  let t ← pTok
  if t = "-" then pure none else
  if t ≠ "S" then failure else do
  let dis ← pBool
  let c ← pTok
  if c = "-" then pure (some { cron := none, disabled := dis }) else
  if c ≠ "c" then failure else do
  let e ← pString
  let es ← pList pString
  let tz ← pString
  pure (some { cron := some { expression := e, expressions := es, timezone := tz }, disabled := dis })

def pJobConfig : P JobConfig := do
  let t ← pTok
  if t ≠ "JC" then failure
  let ns ← pString; let name ← pString; let uid ← pString
  let tpl ← pTemplate
  let c ← pTok
  if c ≠ "C" then failure
  let pol ← pString; let mc ← pOptInt
  let sched ← pSchedule
  let opts ← pSpec
  pure { ns := ns, name := name, uid := uid, template := tpl,
         concurrency := { policy := pol, maxConcurrency := mc }, schedule := sched, option := opts }

def pOwner : P OwnerRef := do
  let k ← pString; let n ← pString; let u ← pString; let c ← pBool
  pure { kind := k, name := n, uid := u, controller := c }

def pStartPolicy : P (Option StartPolicy) := do
  let t ← pTok
  if t = "-" then pure none else
  if t ≠ "sp" then failure else do
  let p ← pString; let sa ← pOptInt
  pure (some { policy := p, startAfter := sa })

def pSubKV : P (String × String) := do
  let k ← pString; let v ← pString
  pure (k, v)

def pJob : P Job := do
  let t ← pTok
  if t ≠ "JOB" then failure
  let name ← pString; let lbl ← pString
  let owners ← pList pOwner
  let cn ← pString; let ty ← pString
  let sp ← pStartPolicy
  let tpl ← pOptTemplate
  let ov ← pString
  let subs ← pList pSubKV
  let kt ← pOptInt; let ttl ← pOptInt; let started ← pBool
  pure { name := name, uidLabel := lbl, owners := owners, configName := cn, type := ty, startPolicy := sp,
         template := tpl, optionValues := ov, substitutions := subs, killTimestamp := kt, ttl := ttl,
         started := started }

def pEntry : P JCEntry := do
  let n ← pString; let u ← pString; let a ← pInt; let q ← pInt; let mc ← pOptInt
  pure { name := n, uid := u, active := a, queued := q, maxConcurrency := mc }

/-! ### rendering -/

def kindTok : Kind → String
  | .invalid => "I" | .required => "R" | .forbidden => "F" | .notSupported => "N" | .tooMany => "M"
  | .notFound => "NF" | .duplicate => "D" | .internal => "X" | .k8s => "K" | .opt => "O"

def sortStrs (l : List String) : List String := l.mergeSort (fun a b => decide (a ≤ b))

def showErrs (es : Errs) : String :=
  if es.isEmpty then "ok"
  else "rej " ++ ",".intercalate (sortStrs (es.map fun e => e.path ++ ":" ++ kindTok e.kind))

def showRes : Option Errs → String
  | none => "panic"
  | some es => showErrs es

def showLoad : LoadR → String
  | .skip => "skip" | .ok => "ok" | .error => "error" | .panic => "panic"

def showParser (p : Parser) : String :=
  "q" ++ b01 p.quartz ++ "n" ++ b01 p.hashNames ++ "s" ++ b01 p.hashEmptySeconds ++ "f" ++ b01 p.hashFields

def showOptIntS : Option Int → String
  | none => "-"
  | some i => toString i

def showPod : Option PodT → String
  | none => "-"
  | some p => "p" ++ b01 p.restartAlways ++ b01 p.restartEmpty

/-- what `val.mut` prints of a defaulted Job -/
def showMutated (j : Job) : String :=
  let t := j.template.getD {}
  encX j.type ++ " " ++ showOptIntS j.ttl ++ " " ++ showPod t.pod ++ " " ++
    (match t.parallelism with | none => "-" | some p => encX p.strategy) ++ " " ++
    showOptIntS t.maxAttempts ++ " " ++ showOptIntS t.retryDelay ++ " " ++ showOptIntS t.pendingTimeout

def run {α : Type} (p : P α) (toks : List String) : Option α :=
  match p toks with
  | some (a, []) => some a
  | _ => none

/-! ### step -/

def valStep (s : ValDS) (t : List String) : ValDS × String :=
  match t with
  | ["val.reset"] => ({}, "ok")
  | ["val.cfg", fmt, hn, hs, hf, dtz, now, me, dp, dt] =>
    let ob (x : String) : Option Bool := if x = "-" then none else some (x = "1")
    let cfg : CronCfg := { format := unq fmt, hashNames := ob hn, hashSecondsByDefault := ob hs, hashFields := ob hf,
                           defaultTimezone := if dtz = "-" then none else some (unq dtz) }
    ({ s with cfg := cfg, now := int! now, maxEnq := optInt me, defPending := optInt dp, defTTL := optInt dt },
     showParser (newParserFromConfig cfg))
  | ["val.orc.tz", tz, b] => ({ s with tzTab := s.tzTab.insert (unq tz) (b = "1") }, "ok")
  | ["val.orc.parse", hid, line, bits] =>
    let key := (if hid = "~" then "~" else unq hid) ++ "\n" ++ unq line
    ({ s with parseTab := s.parseTab.insert key bits }, "ok")
  | ["val.orc.hashes", cnt, keys, mat, strat, hs] =>
    let sp : Indexes.Spec := { withCount := optInt cnt, withKeys := (listTok keys ";").map unq,
                               withMatrix := parseMatrix mat, strategy := unq strat }
    let ixs := (Indexes.generateIndexes (some sp)).getD []
    let hl := if hs = "-" then [] else listTok hs ";"
    let tab := (ixs.zip hl).foldl (fun tb p => tb.insertIfNew (showIndex p.1) p.2) s.hashTab
    ({ s with hashTab := tab }, "ok")
  | "val.jc" :: id :: rest =>
    match run pJobConfig rest with
    | none => (s, "bad-args")
    | some jc => ({ s with jcs := s.jcs.insert id jc }, showRes (validateJobConfig s.env jc))
  | ["val.load", ids] =>
    let jcs := (listTok ids ",").filterMap fun i => s.jcs.get? i
    (s, showLoad (scheduleLoad s.env jcs))
  | ["val.bump", id] =>
    match s.jcs.get? id with
    | none => (s, "bad-args")
    | some jc =>
      (s, match parseCronAndTimezone s.env jc with
          | .skip => "ok" | .ok => "ok" | .error => "error" | .panic => "panic")
  | ["val.newjob", id, ty, ts] =>
    match s.jcs.get? id with
    | none => (s, "bad-args")
    | some jc =>
      match newJobFromJobConfig jc (unq ty) (int! ts) with
      | none => (s, "err")
      | some j =>
        (s, "ok " ++ encX j.name ++ " " ++ encX j.uidLabel ++ " " ++ encX j.type ++ " " ++
            b01 (j.template = some jc.template) ++ " " ++
            showList (j.substitutions.map fun kv => encX kv.1 ++ "=" ++ encX kv.2) ",")
  | "val.mut" :: rest =>
    match run pJob rest with
    | none => (s, "bad-args")
    | some j =>
      -- the Go side reports Kubernetes' verdict on the defaulted template as the oracle: here the model
      -- only has to predict the other defaults, so the verdict is carried over unchanged
      (s, showMutated (mutateJob s.env (fun p => p.k8sValid) j))
  | "val.jobc" :: rest =>
    match run (do let j ← pJob; let l ← pList pEntry; pure (j, l)) rest with
    | none => (s, "bad-args")
    | some (j, l) => (s, showErrs (webhookJobCreate s.env j l))
  | "val.jobu" :: rest =>
    match run (do let o ← pJob; let n ← pJob; pure (o, n)) rest with
    | none => (s, "bad-args")
    | some (o, n) => (s, showRes (webhookJobUpdate s.env o n))
  | _ => (s, "bad-op")

end Furiko.Driver.ValidationD

namespace Furiko.Driver
/-- entry point used by `Main.lean` -/
def validationStep := ValidationD.valStep
abbrev ValDS := ValidationD.ValDS
end Furiko.Driver
